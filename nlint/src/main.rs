// nlint: a rustc_private fact extractor for the noulith crate.
//
// Invoked as RUSTC_WORKSPACE_WRAPPER: argv = [nlint, <path to rustc>, rustc args...].
// For the crate named by NLINT_CRATE (default "noulith") it dumps, after analysis, one JSON fact
// file (path in NLINT_OUT) with: functions, MIR bodies (resolved callees), HIR matches with
// structural patterns, struct literals, ADTs with the type paths their fields mention, impls,
// traits, unsafe constructs. No rule is decided here; rules live in /verif/rules (Python).
#![feature(rustc_private)]
#![allow(clippy::all)]

extern crate rustc_abi;
extern crate rustc_ast;
extern crate rustc_data_structures;
extern crate rustc_driver;
extern crate rustc_hir;
extern crate rustc_interface;
extern crate rustc_middle;
extern crate rustc_session;
extern crate rustc_span;

use std::collections::HashMap;
use std::fmt::Write as _;

use rustc_driver::{Callbacks, Compilation};
use rustc_hir as hir;
use rustc_hir::def::{DefKind, Res};
use rustc_hir::def_id::{DefId, LocalDefId, LOCAL_CRATE};
use rustc_hir::intravisit::{self, Visitor};
use rustc_interface::interface::Compiler;
use rustc_middle::mir;
use rustc_middle::ty::print::with_no_trimmed_paths;
use rustc_middle::ty::{self, Instance, Ty, TyCtxt, TypingEnv};
use rustc_span::Span;

// ------------------------------------------------------------------------------------------------
// tiny JSON writer

fn jstr(out: &mut String, s: &str) {
    out.push('"');
    for c in s.chars() {
        match c {
            '"' => out.push_str("\\\""),
            '\\' => out.push_str("\\\\"),
            '\n' => out.push_str("\\n"),
            '\r' => out.push_str("\\r"),
            '\t' => out.push_str("\\t"),
            c if (c as u32) < 0x20 => {
                let _ = write!(out, "\\u{:04x}", c as u32);
            }
            c => out.push(c),
        }
    }
    out.push('"');
}

fn js(s: &str) -> String {
    let mut o = String::new();
    jstr(&mut o, s);
    o
}

fn jlist(items: &[String]) -> String {
    let mut o = String::from("[");
    for (i, it) in items.iter().enumerate() {
        if i > 0 {
            o.push(',');
        }
        o.push_str(it);
    }
    o.push(']');
    o
}

// ------------------------------------------------------------------------------------------------

struct Ctx<'tcx> {
    tcx: TyCtxt<'tcx>,
    spans: Vec<String>,
    span_ix: HashMap<Span, usize>,
    files: Vec<String>,
    file_ix: HashMap<String, usize>,
}

impl<'tcx> Ctx<'tcx> {
    fn file(&mut self, name: String) -> usize {
        if let Some(i) = self.file_ix.get(&name) {
            return *i;
        }
        let i = self.files.len();
        self.files.push(name.clone());
        self.file_ix.insert(name, i);
        i
    }

    // span table entry: [file, l0, c0, l1, c1, expn, parent, macro]
    //   expn: 0 for the root context else a per-expansion id; parent: index of the call-site span
    fn span(&mut self, sp: Span) -> usize {
        if let Some(i) = self.span_ix.get(&sp) {
            return *i;
        }
        let sm = self.tcx.sess.source_map();
        let lo = sm.lookup_char_pos(sp.lo());
        let hi = sm.lookup_char_pos(sp.hi());
        let fname = format!("{}", lo.file.name.prefer_local_unconditionally());
        let f = self.file(fname);
        let (expn, parent, mac) = if sp.from_expansion() {
            let ed = sp.ctxt().outer_expn_data();
            let id = sp.ctxt().outer_expn();
            let parent = self.span(ed.call_site) as i64;
            let name = match ed.kind {
                rustc_span::ExpnKind::Macro(_, n) => n.to_string(),
                rustc_span::ExpnKind::Desugaring(d) => format!("desugar:{:?}", d),
                rustc_span::ExpnKind::AstPass(p) => format!("astpass:{:?}", p),
                rustc_span::ExpnKind::Root => String::new(),
            };
            // local id + 1 so that 0 means root; foreign expansions hash the debug form
            let idn = {
                let s = format!("{:?}", id);
                let mut h: u64 = 1469598103934665603;
                for b in s.bytes() {
                    h ^= b as u64;
                    h = h.wrapping_mul(1099511628211);
                }
                (h % 2_000_000_000) + 1
            };
            (idn, parent, name)
        } else {
            (0, -1, String::new())
        };
        let e = format!(
            "[{},{},{},{},{},{},{},{}]",
            f,
            lo.line,
            lo.col.0,
            hi.line,
            hi.col.0,
            expn,
            parent,
            js(&mac)
        );
        let i = self.spans.len();
        self.spans.push(e);
        self.span_ix.insert(sp, i);
        i
    }

    fn path(&self, did: DefId) -> String {
        with_no_trimmed_paths!(self.tcx.def_path_str(did))
    }

    fn ty(&self, t: Ty<'tcx>) -> String {
        with_no_trimmed_paths!(format!("{}", t))
    }

    // every ADT / dyn-trait / closure / fn-ptr path mentioned anywhere inside a type
    fn ty_mentions(&self, t: Ty<'tcx>) -> Vec<String> {
        let mut v = Vec::new();
        for arg in t.walk() {
            if let Some(t) = arg.as_type() {
                match t.kind() {
                    ty::Adt(def, _) => v.push(format!("adt:{}", self.path(def.did()))),
                    ty::Dynamic(preds, ..) => {
                        if let Some(p) = preds.principal_def_id() {
                            v.push(format!("dyn:{}", self.path(p)));
                        }
                    }
                    ty::Closure(d, _) => v.push(format!("closure:{}", self.path(*d))),
                    ty::FnPtr(..) => v.push("fnptr".to_string()),
                    ty::Param(p) => v.push(format!("param:{}", p.name)),
                    ty::RawPtr(..) => v.push("rawptr".to_string()),
                    _ => {}
                }
            }
        }
        v.sort();
        v.dedup();
        v
    }
}

// ------------------------------------------------------------------------------------------------
// MIR

fn place_json<'tcx>(cx: &Ctx<'tcx>, body: &mir::Body<'tcx>, p: &mir::Place<'tcx>) -> String {
    let mut items = vec![format!("{}", p.local.as_usize())];
    let mut pty = mir::PlaceTy::from_ty(body.local_decls[p.local].ty);
    for elem in p.projection.iter() {
        let s = match elem {
            mir::ProjectionElem::Deref => js("*"),
            mir::ProjectionElem::Field(f, _) => {
                // field name when the base is an ADT
                let name = match pty.ty.kind() {
                    ty::Adt(def, _) => {
                        let vi = pty.variant_index.unwrap_or(rustc_abi::FIRST_VARIANT);
                        if def.is_enum() || def.is_struct() || def.is_union() {
                            def.variants()
                                .get(vi)
                                .and_then(|v| v.fields.get(f))
                                .map(|fd| fd.name.to_string())
                        } else {
                            None
                        }
                    }
                    _ => None,
                };
                match name {
                    Some(n) => js(&format!("f{}:{}", f.as_usize(), n)),
                    None => js(&format!("f{}", f.as_usize())),
                }
            }
            mir::ProjectionElem::Index(l) => js(&format!("i{}", l.as_usize())),
            mir::ProjectionElem::ConstantIndex { offset, from_end, .. } => {
                js(&format!("c{}{}", if from_end { "-" } else { "" }, offset))
            }
            mir::ProjectionElem::Subslice { .. } => js("s"),
            mir::ProjectionElem::Downcast(name, vi) => js(&format!(
                "v{}:{}",
                vi.as_usize(),
                name.map(|n| n.to_string()).unwrap_or_default()
            )),
            mir::ProjectionElem::OpaqueCast(_) => js("o"),
            mir::ProjectionElem::UnwrapUnsafeBinder(_) => js("ub"),
        };
        items.push(s);
        pty = pty.projection_ty(cx.tcx, elem);
    }
    jlist(&items)
}

fn const_json<'tcx>(cx: &Ctx<'tcx>, c: &mir::ConstOperand<'tcx>) -> String {
    let t = c.const_.ty();
    let (kind, val) = match t.kind() {
        ty::FnDef(did, args) => (
            "fn",
            with_no_trimmed_paths!(cx.tcx.def_path_str_with_args(*did, args)),
        ),
        _ => ("v", with_no_trimmed_paths!(format!("{}", c.const_))),
    };
    let mut extra = String::new();
    if let ty::FnDef(did, _) = t.kind() {
        extra = format!(",{}", js(&cx.path(*did)));
    }
    format!("[\"k\",{},{},{}{}]", js(kind), js(&val), js(&cx.ty(t)), extra)
}

fn operand_json<'tcx>(cx: &Ctx<'tcx>, body: &mir::Body<'tcx>, o: &mir::Operand<'tcx>) -> String {
    match o {
        mir::Operand::Copy(p) => format!("[\"c\",{}]", place_json(cx, body, p)),
        mir::Operand::Move(p) => format!("[\"m\",{}]", place_json(cx, body, p)),
        mir::Operand::Constant(c) => const_json(cx, c),
        #[allow(unreachable_patterns)]
        other => format!("[\"o\",{}]", js(&format!("{:?}", other))),
    }
}

fn rvalue_json<'tcx>(cx: &Ctx<'tcx>, body: &mir::Body<'tcx>, rv: &mir::Rvalue<'tcx>) -> String {
    match rv {
        mir::Rvalue::Use(o, ..) => format!("[\"use\",{}]", operand_json(cx, body, o)),
        mir::Rvalue::Repeat(o, n) => format!(
            "[\"repeat\",{},{}]",
            operand_json(cx, body, o),
            js(&with_no_trimmed_paths!(format!("{}", n)))
        ),
        mir::Rvalue::Ref(_, bk, p) => {
            let m = match bk {
                mir::BorrowKind::Shared => "shared",
                mir::BorrowKind::Fake(_) => "fake",
                mir::BorrowKind::Mut { .. } => "mut",
            };
            format!("[\"ref\",{},{}]", js(m), place_json(cx, body, p))
        }
        mir::Rvalue::RawPtr(k, p) => {
            format!("[\"rawptr\",{},{}]", js(&format!("{:?}", k)), place_json(cx, body, p))
        }
        mir::Rvalue::Cast(k, o, t) => format!(
            "[\"cast\",{},{},{}]",
            js(&format!("{:?}", k)),
            operand_json(cx, body, o),
            js(&cx.ty(*t))
        ),
        mir::Rvalue::BinaryOp(op, ab) => format!(
            "[\"bin\",{},{},{}]",
            js(&format!("{:?}", op)),
            operand_json(cx, body, &ab.0),
            operand_json(cx, body, &ab.1)
        ),
        mir::Rvalue::UnaryOp(op, o) => format!(
            "[\"un\",{},{}]",
            js(&format!("{:?}", op)),
            operand_json(cx, body, o)
        ),
        mir::Rvalue::Discriminant(p) => format!("[\"discr\",{}]", place_json(cx, body, p)),
        mir::Rvalue::Aggregate(kind, ops) => {
            let (k, path, vi, vname) = match &**kind {
                mir::AggregateKind::Array(_) => ("array", String::new(), -1i64, String::new()),
                mir::AggregateKind::Tuple => ("tuple", String::new(), -1, String::new()),
                mir::AggregateKind::Adt(did, vi, _, _, _) => {
                    let def = cx.tcx.adt_def(*did);
                    let vname = def.variant(*vi).name.to_string();
                    ("adt", cx.path(*did), vi.as_usize() as i64, vname)
                }
                mir::AggregateKind::Closure(did, _) => ("closure", cx.path(*did), -1, String::new()),
                mir::AggregateKind::Coroutine(did, _) => {
                    ("coroutine", cx.path(*did), -1, String::new())
                }
                mir::AggregateKind::CoroutineClosure(did, _) => {
                    ("coroutineclosure", cx.path(*did), -1, String::new())
                }
                mir::AggregateKind::RawPtr(..) => ("rawptr", String::new(), -1, String::new()),
            };
            let opsj: Vec<String> = ops.iter().map(|o| operand_json(cx, body, o)).collect();
            format!(
                "[\"agg\",{},{},{},{},{}]",
                js(k),
                js(&path),
                vi,
                js(&vname),
                jlist(&opsj)
            )
        }
        mir::Rvalue::CopyForDeref(p) => format!("[\"use\",[\"c\",{}]]", place_json(cx, body, p)),
        mir::Rvalue::ThreadLocalRef(d) => format!("[\"tlref\",{}]", js(&cx.path(*d))),
        other => format!("[\"other\",{}]", js(&format!("{:?}", other))),
    }
}

fn callee_json<'tcx>(
    cx: &Ctx<'tcx>,
    body_did: DefId,
    body: &mir::Body<'tcx>,
    func: &mir::Operand<'tcx>,
) -> String {
    if let Some((did, args)) = func.const_fn_def() {
        let tcx = cx.tcx;
        let d = cx.path(did);
        let da = with_no_trimmed_paths!(tcx.def_path_str_with_args(did, args));
        let gargs: Vec<String> = args
            .iter()
            .filter_map(|a| a.as_type().map(|t| js(&cx.ty(t))))
            .collect();
        let mut tr = String::new();
        if let Some(t) = tcx.trait_of_assoc(did) {
            tr = cx.path(t);
        }
        let local = did.is_local();
        // resolve
        let mut r = String::new();
        let mut rkind = String::new();
        let mut rlocal = false;
        let mut rargs: Vec<String> = Vec::new();
        let te = TypingEnv::post_analysis(tcx, body_did);
        if let Ok(Some(inst)) = Instance::try_resolve(tcx, te, did, args) {
            let rd = inst.def_id();
            r = cx.path(rd);
            rlocal = rd.is_local();
            rkind = match inst.def {
                ty::InstanceKind::Item(_) => "item".to_string(),
                ty::InstanceKind::Virtual(..) => "virtual".to_string(),
                ty::InstanceKind::Intrinsic(_) => "intrinsic".to_string(),
                ty::InstanceKind::ClosureOnceShim { .. } => "closure_once".to_string(),
                ty::InstanceKind::FnPtrShim(..) => "fnptr_shim".to_string(),
                ty::InstanceKind::ReifyShim(..) => "reify".to_string(),
                ty::InstanceKind::DropGlue(..) => "dropglue".to_string(),
                ty::InstanceKind::CloneShim(..) => "cloneshim".to_string(),
                _ => "othershim".to_string(),
            };
            rargs = inst
                .args
                .iter()
                .filter_map(|a| a.as_type().map(|t| js(&cx.ty(t))))
                .collect();
        }
        let kind = format!("{:?}", tcx.def_kind(did));
        format!(
            "{{\"d\":{},\"da\":{},\"g\":{},\"tr\":{},\"local\":{},\"kind\":{},\"r\":{},\"rk\":{},\"rlocal\":{},\"rg\":{}}}",
            js(&d),
            js(&da),
            jlist(&gargs),
            js(&tr),
            local,
            js(&kind),
            js(&r),
            js(&rkind),
            rlocal,
            jlist(&rargs)
        )
    } else {
        let t = func.ty(&body.local_decls, cx.tcx);
        format!(
            "{{\"p\":{},\"pty\":{}}}",
            operand_json(cx, body, func),
            js(&cx.ty(t))
        )
    }
}

fn body_json<'tcx>(cx: &mut Ctx<'tcx>, did: LocalDefId, body: &mir::Body<'tcx>, name: &str) -> String {
    let tcx = cx.tcx;
    let mut out = String::new();
    let _ = write!(out, "{{\"fn\":{},\"argc\":{},", js(name), body.arg_count);
    // locals
    let locals: Vec<String> = body.local_decls.iter().map(|d| js(&cx.ty(d.ty))).collect();
    let _ = write!(out, "\"locals\":{},", jlist(&locals));
    // user variable names
    let mut vars = Vec::new();
    for vdi in &body.var_debug_info {
        if let mir::VarDebugInfoContents::Place(p) = &vdi.value {
            vars.push(format!(
                "[{},{}]",
                js(&vdi.name.to_string()),
                place_json(cx, body, p)
            ));
        }
    }
    let _ = write!(out, "\"vars\":{},", jlist(&vars));
    let mut blocks = Vec::new();
    for (_bb, data) in body.basic_blocks.iter_enumerated() {
        let mut stmts = Vec::new();
        for st in &data.statements {
            let sp = cx.span(st.source_info.span);
            match &st.kind {
                mir::StatementKind::Assign(b) => {
                    let (p, rv) = &**b;
                    stmts.push(format!(
                        "[\"a\",{},{},{}]",
                        place_json(cx, body, p),
                        rvalue_json(cx, body, rv),
                        sp
                    ));
                }
                mir::StatementKind::SetDiscriminant { place, variant_index } => {
                    stmts.push(format!(
                        "[\"sd\",{},{},{}]",
                        place_json(cx, body, place),
                        variant_index.as_usize(),
                        sp
                    ));
                }
                mir::StatementKind::StorageDead(l) => {
                    stmts.push(format!("[\"dead\",{}]", l.as_usize()));
                }
                _ => {}
            }
        }
        let term = data.terminator();
        let sp = cx.span(term.source_info.span);
        let bbi = |b: &mir::BasicBlock| b.as_usize() as i64;
        let unw = |u: &mir::UnwindAction| match u {
            mir::UnwindAction::Cleanup(b) => b.as_usize() as i64,
            _ => -1,
        };
        let t = match &term.kind {
            mir::TerminatorKind::Goto { target } => format!("[\"goto\",{}]", bbi(target)),
            mir::TerminatorKind::SwitchInt { discr, targets } => {
                let mut ts = Vec::new();
                for (v, b) in targets.iter() {
                    ts.push(format!("[{},{}]", js(&format!("{}", v)), bbi(&b)));
                }
                let dty = discr.ty(&body.local_decls, tcx);
                format!(
                    "[\"switch\",{},{},{},{}]",
                    operand_json(cx, body, discr),
                    jlist(&ts),
                    bbi(&targets.otherwise()),
                    js(&cx.ty(dty))
                )
            }
            mir::TerminatorKind::Return => "[\"ret\"]".to_string(),
            mir::TerminatorKind::Unreachable => "[\"unreach\"]".to_string(),
            mir::TerminatorKind::UnwindResume => "[\"resume\"]".to_string(),
            mir::TerminatorKind::UnwindTerminate(_) => "[\"abort\"]".to_string(),
            mir::TerminatorKind::Drop { place, target, unwind, .. } => format!(
                "[\"drop\",{},{},{}]",
                place_json(cx, body, place),
                bbi(target),
                unw(unwind)
            ),
            mir::TerminatorKind::Call { func, args, destination, target, unwind, fn_span, .. } => {
                let a: Vec<String> = args.iter().map(|o| operand_json(cx, body, &o.node)).collect();
                let fsp = cx.span(*fn_span);
                format!(
                    "[\"call\",{},{},{},{},{},{}]",
                    callee_json(cx, did.to_def_id(), body, func),
                    jlist(&a),
                    place_json(cx, body, destination),
                    target.map(|b| b.as_usize() as i64).unwrap_or(-1),
                    unw(unwind),
                    fsp
                )
            }
            mir::TerminatorKind::TailCall { func, args, .. } => {
                let a: Vec<String> = args.iter().map(|o| operand_json(cx, body, &o.node)).collect();
                format!(
                    "[\"tailcall\",{},{}]",
                    callee_json(cx, did.to_def_id(), body, func),
                    jlist(&a)
                )
            }
            mir::TerminatorKind::Assert { cond, expected, msg, target, unwind } => {
                let (kind, ops): (String, Vec<String>) = match &**msg {
                    mir::AssertKind::BoundsCheck { len, index } => (
                        "BoundsCheck".to_string(),
                        vec![operand_json(cx, body, len), operand_json(cx, body, index)],
                    ),
                    mir::AssertKind::Overflow(op, a, b) => (
                        format!("Overflow:{:?}", op),
                        vec![operand_json(cx, body, a), operand_json(cx, body, b)],
                    ),
                    mir::AssertKind::OverflowNeg(a) => {
                        ("OverflowNeg".to_string(), vec![operand_json(cx, body, a)])
                    }
                    mir::AssertKind::DivisionByZero(a) => {
                        ("DivisionByZero".to_string(), vec![operand_json(cx, body, a)])
                    }
                    mir::AssertKind::RemainderByZero(a) => {
                        ("RemainderByZero".to_string(), vec![operand_json(cx, body, a)])
                    }
                    other => (format!("Other:{:?}", other).chars().take(60).collect(), vec![]),
                };
                format!(
                    "[\"assert\",{},{},{},{},{},{}]",
                    operand_json(cx, body, cond),
                    expected,
                    js(&kind),
                    jlist(&ops),
                    bbi(target),
                    unw(unwind)
                )
            }
            mir::TerminatorKind::FalseEdge { real_target, .. } => {
                format!("[\"goto\",{}]", bbi(real_target))
            }
            mir::TerminatorKind::FalseUnwind { real_target, .. } => {
                format!("[\"goto\",{}]", bbi(real_target))
            }
            other => format!("[\"other\",{}]", js(&format!("{:?}", other).chars().take(80).collect::<String>())),
        };
        blocks.push(format!(
            "{{\"s\":{},\"t\":{},\"sp\":{},\"cleanup\":{}}}",
            jlist(&stmts),
            t,
            sp,
            data.is_cleanup
        ));
    }
    let _ = write!(out, "\"blocks\":{}}}", jlist(&blocks));
    out
}

// ------------------------------------------------------------------------------------------------
// HIR: matches, lets, struct literals, unsafe

struct HirFacts<'a, 'tcx> {
    cx: &'a mut Ctx<'tcx>,
    owner: LocalDefId,
    typeck: &'tcx ty::TypeckResults<'tcx>,
    matches: Vec<String>,
    structs: Vec<String>,
    unsafes: Vec<String>,
    closures: Vec<String>,
}

impl<'a, 'tcx> HirFacts<'a, 'tcx> {
    fn res_path(&self, qpath: &hir::QPath<'tcx>, id: hir::HirId) -> String {
        match self.typeck.qpath_res(qpath, id) {
            Res::Def(kind, did) => {
                let p = self.cx.path(did);
                match kind {
                    DefKind::Ctor(..) => {
                        // report the variant / struct, not the constructor fn
                        let parent = self.cx.tcx.parent(did);
                        self.cx.path(parent)
                    }
                    _ => p,
                }
            }
            Res::SelfCtor(_) | Res::SelfTyAlias { .. } => "Self".to_string(),
            other => format!("{:?}", other),
        }
    }

    fn pat_expr(&mut self, e: &'tcx hir::PatExpr<'tcx>) -> String {
        match &e.kind {
            hir::PatExprKind::Lit { lit, negated } => {
                let v = match &lit.node {
                    rustc_ast::LitKind::Str(s, _) => format!("str:{}", s),
                    rustc_ast::LitKind::Char(c) => format!("char:{}", c),
                    rustc_ast::LitKind::Int(n, _) => format!("int:{}{}", if *negated { "-" } else { "" }, n),
                    rustc_ast::LitKind::Bool(b) => format!("bool:{}", b),
                    rustc_ast::LitKind::Byte(b) => format!("byte:{}", b),
                    other => format!("lit:{:?}", other),
                };
                format!("{{\"k\":\"lit\",\"v\":{}}}", js(&v))
            }
            hir::PatExprKind::Path(q) => {
                format!("{{\"k\":\"path\",\"p\":{}}}", js(&self.res_path(q, e.hir_id)))
            }
        }
    }

    fn pat(&mut self, p: &'tcx hir::Pat<'tcx>) -> String {
        match &p.kind {
            hir::PatKind::Wild | hir::PatKind::Missing => "{\"k\":\"wild\"}".to_string(),
            hir::PatKind::Binding(_, _, ident, sub) => match sub {
                Some(s) => format!(
                    "{{\"k\":\"bind\",\"n\":{},\"s\":{}}}",
                    js(&ident.name.to_string()),
                    self.pat(s)
                ),
                None => format!("{{\"k\":\"bind\",\"n\":{}}}", js(&ident.name.to_string())),
            },
            hir::PatKind::Struct(q, fields, _) => {
                let path = self.res_path(q, p.hir_id);
                let fs: Vec<String> = fields
                    .iter()
                    .map(|f| format!("[{},{}]", js(&f.ident.name.to_string()), self.pat(f.pat)))
                    .collect();
                format!("{{\"k\":\"struct\",\"p\":{},\"f\":{}}}", js(&path), jlist(&fs))
            }
            hir::PatKind::TupleStruct(q, pats, dd) => {
                let path = self.res_path(q, p.hir_id);
                let ps: Vec<String> = pats.iter().map(|x| self.pat(x)).collect();
                format!(
                    "{{\"k\":\"ts\",\"p\":{},\"s\":{},\"dd\":{}}}",
                    js(&path),
                    jlist(&ps),
                    dd.as_opt_usize().map(|x| x as i64).unwrap_or(-1)
                )
            }
            hir::PatKind::Or(pats) => {
                let ps: Vec<String> = pats.iter().map(|x| self.pat(x)).collect();
                format!("{{\"k\":\"or\",\"s\":{}}}", jlist(&ps))
            }
            hir::PatKind::Tuple(pats, dd) => {
                let ps: Vec<String> = pats.iter().map(|x| self.pat(x)).collect();
                format!(
                    "{{\"k\":\"tuple\",\"s\":{},\"dd\":{}}}",
                    jlist(&ps),
                    dd.as_opt_usize().map(|x| x as i64).unwrap_or(-1)
                )
            }
            hir::PatKind::Box(s) | hir::PatKind::Deref(s) | hir::PatKind::Ref(s, ..) => {
                format!("{{\"k\":\"ref\",\"s\":{}}}", self.pat(s))
            }
            hir::PatKind::Expr(e) => self.pat_expr(e),
            hir::PatKind::Guard(s, _) => format!("{{\"k\":\"guard\",\"s\":{}}}", self.pat(s)),
            hir::PatKind::Range(a, b, end) => {
                let a = a.map(|x| self.pat_expr(x)).unwrap_or("null".to_string());
                let b = b.map(|x| self.pat_expr(x)).unwrap_or("null".to_string());
                format!(
                    "{{\"k\":\"range\",\"lo\":{},\"hi\":{},\"end\":{}}}",
                    a,
                    b,
                    js(&format!("{:?}", end))
                )
            }
            hir::PatKind::Slice(a, m, b) => {
                let pa: Vec<String> = a.iter().map(|x| self.pat(x)).collect();
                let pb: Vec<String> = b.iter().map(|x| self.pat(x)).collect();
                format!(
                    "{{\"k\":\"slice\",\"a\":{},\"m\":{},\"b\":{}}}",
                    jlist(&pa),
                    m.is_some(),
                    jlist(&pb)
                )
            }
            hir::PatKind::Never => "{\"k\":\"never\"}".to_string(),
            hir::PatKind::Err(_) => "{\"k\":\"err\"}".to_string(),
        }
    }

    fn owner_path(&self) -> String {
        self.cx.path(self.owner.to_def_id())
    }
}

impl<'a, 'tcx> Visitor<'tcx> for HirFacts<'a, 'tcx> {
    // do not descend into nested bodies (closures are body owners of their own)
    fn visit_expr(&mut self, e: &'tcx hir::Expr<'tcx>) {
        match &e.kind {
            hir::ExprKind::Match(scrut, arms, source) => {
                let sty = self.typeck.expr_ty_adjusted(scrut);
                let mut arms_j = Vec::new();
                for arm in arms.iter() {
                    let pj = self.pat(arm.pat);
                    let psp = self.cx.span(arm.pat.span);
                    let bsp = self.cx.span(arm.body.span);
                    let asp = self.cx.span(arm.span);
                    arms_j.push(format!(
                        "{{\"pat\":{},\"guard\":{},\"pat_sp\":{},\"body_sp\":{},\"sp\":{}}}",
                        pj,
                        arm.guard.is_some(),
                        psp,
                        bsp,
                        asp
                    ));
                }
                let sp = self.cx.span(e.span);
                let ssp = self.cx.span(scrut.span);
                let ow = self.owner_path();
                self.matches.push(format!(
                    "{{\"fn\":{},\"kind\":{},\"scrut_ty\":{},\"sp\":{},\"scrut_sp\":{},\"arms\":{}}}",
                    js(&ow),
                    js(&format!("{:?}", source)),
                    js(&self.cx.ty(sty)),
                    sp,
                    ssp,
                    jlist(&arms_j)
                ));
            }
            hir::ExprKind::Let(l) => {
                let sty = self.typeck.expr_ty_adjusted(l.init);
                let pj = self.pat(l.pat);
                let sp = self.cx.span(e.span);
                let psp = self.cx.span(l.pat.span);
                let ow = self.owner_path();
                self.matches.push(format!(
                    "{{\"fn\":{},\"kind\":\"Let\",\"scrut_ty\":{},\"sp\":{},\"scrut_sp\":{},\"arms\":[{{\"pat\":{},\"guard\":false,\"pat_sp\":{},\"body_sp\":{},\"sp\":{}}}]}}",
                    js(&ow),
                    js(&self.cx.ty(sty)),
                    sp,
                    sp,
                    pj,
                    psp,
                    sp,
                    sp
                ));
            }
            hir::ExprKind::Struct(q, fields, _) => {
                let t = self.typeck.expr_ty(e);
                if let ty::Adt(def, _) = t.kind() {
                    if def.did().is_local() {
                        let mut fs = Vec::new();
                        for f in fields.iter() {
                            let (k, v) = describe_expr(self, f.expr);
                            fs.push(format!(
                                "[{},{},{}]",
                                js(&f.ident.name.to_string()),
                                js(k),
                                js(&v)
                            ));
                        }
                        let vpath = self.res_path(q, e.hir_id);
                        let sp = self.cx.span(e.span);
                        let ow = self.owner_path();
                        self.structs.push(format!(
                            "{{\"fn\":{},\"adt\":{},\"ctor\":{},\"fields\":{},\"sp\":{}}}",
                            js(&ow),
                            js(&self.cx.path(def.did())),
                            js(&vpath),
                            jlist(&fs),
                            sp
                        ));
                    }
                }
            }
            hir::ExprKind::Block(b, _) => {
                if let hir::BlockCheckMode::UnsafeBlock(src) = b.rules {
                    let sp = self.cx.span(b.span);
                    let ow = self.owner_path();
                    self.unsafes.push(format!(
                        "{{\"kind\":\"block\",\"fn\":{},\"src\":{},\"sp\":{},\"expn\":{}}}",
                        js(&ow),
                        js(&format!("{:?}", src)),
                        sp,
                        b.span.from_expansion()
                    ));
                }
            }
            hir::ExprKind::Closure(c) => {
                let sp = self.cx.span(e.span);
                let ow = self.owner_path();
                self.closures.push(format!(
                    "{{\"parent\":{},\"closure\":{},\"sp\":{}}}",
                    js(&ow),
                    js(&self.cx.path(c.def_id.to_def_id())),
                    sp
                ));
            }
            _ => {}
        }
        intravisit::walk_expr(self, e);
    }
}

// a one-level description of an expression used as a struct-literal field or call argument
fn describe_expr<'a, 'tcx>(hf: &HirFacts<'a, 'tcx>, e: &'tcx hir::Expr<'tcx>) -> (&'static str, String) {
    match &e.kind {
        hir::ExprKind::Lit(l) => match &l.node {
            rustc_ast::LitKind::Str(s, _) => ("str", s.to_string()),
            rustc_ast::LitKind::Int(n, _) => ("int", format!("{}", n)),
            rustc_ast::LitKind::Bool(b) => ("bool", format!("{}", b)),
            rustc_ast::LitKind::Float(s, _) => ("float", s.to_string()),
            rustc_ast::LitKind::Char(c) => ("char", c.to_string()),
            other => ("lit", format!("{:?}", other)),
        },
        hir::ExprKind::MethodCall(seg, recv, _args, _) => {
            let (k, v) = describe_expr(hf, recv);
            let m = seg.ident.name.to_string();
            if k == "str" && (m == "to_string" || m == "to_owned" || m == "into") {
                ("str", v)
            } else {
                ("methodcall", format!("{}({}:{})", m, k, v))
            }
        }
        hir::ExprKind::Closure(c) => ("closure", hf.cx.path(c.def_id.to_def_id())),
        hir::ExprKind::Path(q) => match hf.typeck.qpath_res(q, e.hir_id) {
            Res::Def(_, did) => ("path", hf.cx.path(did)),
            Res::Local(_) => ("local", String::new()),
            other => ("path", format!("{:?}", other)),
        },
        hir::ExprKind::Call(f, args) => {
            let (_k, v) = describe_expr(hf, f);
            let a: Vec<String> = args
                .iter()
                .map(|x| {
                    let (k, v) = describe_expr(hf, x);
                    format!("{}:{}", k, v)
                })
                .collect();
            ("call", format!("{}({})", v, a.join(",")))
        }
        hir::ExprKind::Unary(op, x) => {
            let (k, v) = describe_expr(hf, x);
            ("unary", format!("{:?}({}:{})", op, k, v))
        }
        hir::ExprKind::AddrOf(_, _, x) => describe_expr(hf, x),
        hir::ExprKind::Cast(x, _) => describe_expr(hf, x),
        hir::ExprKind::DropTemps(x) => describe_expr(hf, x),
        _ => ("other", String::new()),
    }
}

// ------------------------------------------------------------------------------------------------

struct Cb;

impl Callbacks for Cb {
    fn after_analysis<'tcx>(&mut self, _c: &Compiler, tcx: TyCtxt<'tcx>) -> Compilation {
        let want = std::env::var("NLINT_CRATE").unwrap_or_else(|_| "noulith".to_string());
        let name = tcx.crate_name(LOCAL_CRATE).to_string();
        if name != want {
            return Compilation::Continue;
        }
        let out_path = match std::env::var("NLINT_OUT") {
            Ok(p) => p,
            Err(_) => return Compilation::Continue,
        };
        let mut cx = Ctx {
            tcx,
            spans: Vec::new(),
            span_ix: HashMap::new(),
            files: Vec::new(),
            file_ix: HashMap::new(),
        };
        let mut fns = Vec::new();
        let mut bodies = Vec::new();
        let mut matches = Vec::new();
        let mut structs = Vec::new();
        let mut unsafes = Vec::new();
        let mut closures = Vec::new();

        for ldid in tcx.hir_body_owners() {
            let kind = tcx.def_kind(ldid);
            let is_fn = matches!(kind, DefKind::Fn | DefKind::AssocFn | DefKind::Closure);
            // HIR facts for every body owner (fns, closures, consts, statics)
            {
                let typeck = tcx.typeck(ldid);
                let body = tcx.hir_body_owned_by(ldid);
                let mut hf = HirFacts {
                    cx: &mut cx,
                    owner: ldid,
                    typeck,
                    matches: Vec::new(),
                    structs: Vec::new(),
                    unsafes: Vec::new(),
                    closures: Vec::new(),
                };
                hf.visit_expr(body.value);
                matches.append(&mut hf.matches);
                structs.append(&mut hf.structs);
                unsafes.append(&mut hf.unsafes);
                closures.append(&mut hf.closures);
            }
            if !is_fn {
                continue;
            }
            let did = ldid.to_def_id();
            // function record
            let mut rec = String::new();
            let sp = cx.span(tcx.def_span(did));
            let parent = tcx.parent(did);
            let _ = write!(
                rec,
                "{{\"path\":{},\"kind\":{},\"parent\":{},\"sp\":{}",
                js(&cx.path(did)),
                js(&format!("{:?}", kind)),
                js(&cx.path(parent)),
                sp
            );
            if matches!(kind, DefKind::Fn | DefKind::AssocFn) {
                let sig = tcx.fn_sig(did).instantiate_identity().skip_normalization().skip_binder();
                let ins: Vec<String> = sig.inputs().iter().map(|t| js(&cx.ty(*t))).collect();
                let _ = write!(
                    rec,
                    ",\"inputs\":{},\"output\":{},\"unsafe\":{},\"vis\":{}",
                    jlist(&ins),
                    js(&cx.ty(sig.output())),
                    !sig.safety().is_safe(),
                    js(&format!("{:?}", tcx.visibility(did)))
                );
                // impl context
                if matches!(kind, DefKind::AssocFn) {
                    let p = tcx.parent(did);
                    if matches!(tcx.def_kind(p), DefKind::Impl { .. }) {
                        let self_ty = tcx.type_of(p).instantiate_identity().skip_normalization();
                        let _ = write!(rec, ",\"impl_self\":{}", js(&cx.ty(self_ty)));
                        if let Some(tr) = tcx.impl_opt_trait_ref(p) {
                            let tr = tr.instantiate_identity().skip_normalization();
                            let _ = write!(
                                rec,
                                ",\"impl_trait\":{},\"impl_trait_full\":{}",
                                js(&cx.path(tr.def_id)),
                                js(&with_no_trimmed_paths!(format!("{}", tr)))
                            );
                        }
                    } else if matches!(tcx.def_kind(p), DefKind::Trait) {
                        let _ = write!(rec, ",\"trait_default_of\":{}", js(&cx.path(p)));
                    }
                    let name = tcx.item_name(did).to_string();
                    let _ = write!(rec, ",\"name\":{}", js(&name));
                }
            }
            rec.push('}');
            fns.push(rec);
            // MIR
            let body = tcx.optimized_mir(did);
            let nm = cx.path(did);
            bodies.push(body_json(&mut cx, ldid, body, &nm));
            // promoted constants (e.g. `&Ordering::Less`) as pseudo-bodies `<fn>::promoted[N]`
            let proms = tcx.promoted_mir(did);
            for (pi, pb) in proms.iter_enumerated() {
                let pn = format!("{}::promoted[{}]", nm, pi.as_usize());
                bodies.push(body_json(&mut cx, ldid, pb, &pn));
            }
        }

        // ADTs, impls, traits, unsafe items
        let mut adts = Vec::new();
        let mut impls = Vec::new();
        let mut traits = Vec::new();
        for id in tcx.hir_free_items() {
            let item = tcx.hir_item(id);
            let did = item.owner_id.to_def_id();
            match &item.kind {
                hir::ItemKind::Struct(..) | hir::ItemKind::Enum(..) | hir::ItemKind::Union(..) => {
                    let def = tcx.adt_def(did);
                    let mut vs = Vec::new();
                    for v in def.variants().iter() {
                        let mut fs = Vec::new();
                        for f in v.fields.iter() {
                            let t = tcx.type_of(f.did).instantiate_identity().skip_normalization();
                            let m: Vec<String> = cx.ty_mentions(t).iter().map(|s| js(s)).collect();
                            fs.push(format!(
                                "{{\"name\":{},\"ty\":{},\"mentions\":{},\"vis\":{}}}",
                                js(&f.name.to_string()),
                                js(&cx.ty(t)),
                                jlist(&m),
                                js(&format!("{:?}", f.vis))
                            ));
                        }
                        vs.push(format!(
                            "{{\"name\":{},\"fields\":{}}}",
                            js(&v.name.to_string()),
                            jlist(&fs)
                        ));
                    }
                    let sp = cx.span(item.span);
                    adts.push(format!(
                        "{{\"path\":{},\"kind\":{},\"variants\":{},\"sp\":{}}}",
                        js(&cx.path(did)),
                        js(if def.is_enum() { "enum" } else if def.is_union() { "union" } else { "struct" }),
                        jlist(&vs),
                        sp
                    ));
                }
                hir::ItemKind::Impl(imp) => {
                    let self_ty = tcx.type_of(did).instantiate_identity().skip_normalization();
                    let mut tr_s = String::new();
                    let mut tr_full = String::new();
                    if let Some(tr) = tcx.impl_opt_trait_ref(did) {
                        let tr = tr.instantiate_identity().skip_normalization();
                        tr_s = cx.path(tr.def_id);
                        tr_full = with_no_trimmed_paths!(format!("{}", tr));
                    }
                    let mut items = Vec::new();
                    for ai in tcx.associated_items(did).in_definition_order() {
                        items.push(format!(
                            "[{},{},{}]",
                            js(&ai.name().to_string()),
                            js(&cx.path(ai.def_id)),
                            js(&format!("{:?}", ai.kind).chars().take(12).collect::<String>())
                        ));
                    }
                    let m: Vec<String> = cx.ty_mentions(self_ty).iter().map(|s| js(s)).collect();
                    let sp = cx.span(item.span);
                    let is_unsafe = format!("{:?}", imp).contains("safety: Unsafe");
                    impls.push(format!(
                        "{{\"trait\":{},\"trait_full\":{},\"self_ty\":{},\"self_mentions\":{},\"items\":{},\"sp\":{},\"expn\":{}}}",
                        js(&tr_s),
                        js(&tr_full),
                        js(&cx.ty(self_ty)),
                        jlist(&m),
                        jlist(&items),
                        sp,
                        item.span.from_expansion()
                    ));
                    if is_unsafe {
                        unsafes.push(format!(
                            "{{\"kind\":\"impl\",\"fn\":{},\"src\":\"UserProvided\",\"sp\":{},\"expn\":{}}}",
                            js(&cx.path(did)),
                            sp,
                            item.span.from_expansion()
                        ));
                    }
                }
                hir::ItemKind::Trait { .. } => {
                    let mut items = Vec::new();
                    for ai in tcx.associated_items(did).in_definition_order() {
                        let has_default = ai.defaultness(tcx).has_value();
                        items.push(format!(
                            "[{},{},{}]",
                            js(&ai.name().to_string()),
                            js(&cx.path(ai.def_id)),
                            has_default
                        ));
                    }
                    traits.push(format!(
                        "{{\"path\":{},\"items\":{}}}",
                        js(&cx.path(did)),
                        jlist(&items)
                    ));
                }
                hir::ItemKind::ForeignMod { .. } => {
                    let sp = cx.span(item.span);
                    unsafes.push(format!(
                        "{{\"kind\":\"extern\",\"fn\":{},\"src\":\"UserProvided\",\"sp\":{},\"expn\":{}}}",
                        js(&cx.path(did)),
                        sp,
                        item.span.from_expansion()
                    ));
                }
                hir::ItemKind::Fn { sig, .. } => {
                    if !sig.header.is_safe() {
                        let sp = cx.span(item.span);
                        unsafes.push(format!(
                            "{{\"kind\":\"fn\",\"fn\":{},\"src\":\"UserProvided\",\"sp\":{},\"expn\":{}}}",
                            js(&cx.path(did)),
                            sp,
                            item.span.from_expansion()
                        ));
                    }
                }
                _ => {}
            }
        }
        // unsafe assoc fns
        for ldid in tcx.hir_body_owners() {
            if matches!(tcx.def_kind(ldid), DefKind::AssocFn) {
                let sig = tcx.fn_sig(ldid.to_def_id()).instantiate_identity().skip_normalization().skip_binder();
                if !sig.safety().is_safe() {
                    let sp = cx.span(tcx.def_span(ldid.to_def_id()));
                    unsafes.push(format!(
                        "{{\"kind\":\"fn\",\"fn\":{},\"src\":\"UserProvided\",\"sp\":{},\"expn\":false}}",
                        js(&cx.path(ldid.to_def_id())),
                        sp
                    ));
                }
            }
        }

        let files: Vec<String> = cx.files.iter().map(|f| js(f)).collect();
        let mut out = String::new();
        let _ = write!(
            out,
            "{{\"crate\":{},\"files\":{},\n\"spans\":{},\n\"fns\":{},\n\"bodies\":{},\n\"matches\":{},\n\"structs\":{},\n\"closures\":{},\n\"adts\":{},\n\"impls\":{},\n\"traits\":{},\n\"unsafe\":{}}}\n",
            js(&name),
            jlist(&files),
            jlist(&cx.spans),
            jlist(&fns),
            jlist(&bodies),
            jlist(&matches),
            jlist(&structs),
            jlist(&closures),
            jlist(&adts),
            jlist(&impls),
            jlist(&traits),
            jlist(&unsafes)
        );
        let tmp = format!("{}.tmp.{}", out_path, std::process::id());
        std::fs::write(&tmp, out).expect("nlint: cannot write facts");
        std::fs::rename(&tmp, &out_path).expect("nlint: cannot rename facts");
        Compilation::Continue
    }
}

fn main() {
    let mut args: Vec<String> = std::env::args().collect();
    // RUSTC_WORKSPACE_WRAPPER passes the real rustc path as argv[1]
    if args.len() > 1 && (args[1].ends_with("rustc") || args[1].contains("/rustc")) {
        args.remove(1);
    }
    let mut cb = Cb;
    rustc_driver::run_compiler(&args, &mut cb);
}
