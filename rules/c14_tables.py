"""Reviewed triage tables for the C14/C15/C16 census. Every entry was confirmed by reading the site (and, where noted, by
evaluating candidate inputs with the real interpreter once). Keys contain no line numbers.

PANIC_TABLE: regex on the site key  ->  (verdict, reason);  verdict in {infeasible, internal, guarded}
ARITH_TABLE: (regex on function key, assert kind) -> (expected count, reason)
"""

PANIC_TABLE = [
    (r"^<&?nnum::NNum as std::ops::(Add|Sub|Mul|Rem)(<&?nnum::NNum>)?>::\w+\|Result::expect\|#[01]$", 'infeasible',
     'binary_match!: both Complex arms precede the Float arms, so to_f64_or_inf_or_complex() cannot be Err(complex) here'),
    (r"^nnum::NNum::(div_floor|mod_floor)\|Result::expect\|#[01]$", 'infeasible', 'same binary_match! arm order'),
    (r"^<Lift as core::Builtin>::run\|Option::unwrap\|#0$", 'infeasible', 'Few::Many holds at least two elements, pop() is Some'),
    (r"^captures_to_obj\|Option::unwrap\|#0$", 'infeasible', 'capture group 0 always participates in a match'),
    (r"^core::Env::modify_existing_var\|RefCell::cell_borrow\|#0$", 'guarded',
     'immutable borrow of the parent Env; mutable Env borrows (try_borrow_mut_nres) are never held across a call into the evaluator'),
    (r"^core::Env::mut_top_env\|RefCell::cell_borrow(_mut)?\|#0$", 'guarded',
     'TopEnv is borrowed only for the duration of a write to the output sink; no re-entrant call happens inside'),
    (r"^core::Parser::(annotated_pattern|chain)\|Option::unwrap\|#0$", 'infeasible', 'the vector was matched as Few::Many / just received a push: last() is Some'),
    (r"^core::Parser::operand\|Option::unwrap\|#0$", 'infeasible', 'peek_loc_token() right after peek() returned Some(Token::Bang)'),
    (r"^core::total_hash_of_key\|panic!\|#[01]$", 'guarded', 'ObjKey is only built by to_key after check_if_valid_key (C09 R9.3): streams/functions/instances never reach the hasher'),
    (r"^ein::(flatten_some|flatten_some::\{closure#1\}|iterate|rearrange)\|panic!\|#0$", 'guarded',
     'shape invariants established by compile_einsum / iterate (dims validated, errors returned before); 22 malformed rearrange inputs were evaluated once, all raise'),
    (r"^ein::parse_einsum\|Option::unwrap\|#0$", 'infeasible', 'arrow_count == 1 was checked two statements above'),
    (r"^eval::(Lvalue)?ChainEvaluator::(give|run_top)\|Option::expect\|#0$", 'infeasible', 'pending.last() was Some / pending is non-empty on this path (loop condition)'),
    (r"^eval::evaluate\|Option::unwrap\|#0$", 'infeasible', 'Expr::Sequence is only built by the parser with at least one statement ("(;)" and "()" are parse errors)'),
    (r"^eval::evaluate\|Result::expect\|#[012]$", 'internal', '__internal_frame/for stack primitives (README: "you are on your own")'),
    (r"^eval::evaluate\|Option::expect\|#[012]$", 'internal', '__internal_call stack primitives'),
    (r"^eval::set_index\|Result::unwrap\|#0$", 'infeasible', 'the bytes were taken from a valid String and are put back unchanged'),
    (r"^eval::set_index\|panic!\|#0$", 'infeasible', 'a Stream with a non-empty index path was replaced by a list at the top of set_index'),
    (r"^few::few[23]\|Option::unwrap\|#[01]$", 'infeasible', 'the length was matched as 2 / 3 in the enclosing arm'),
    (r"^builtin\(str_radix\)\|Option::expect\|#[01]$", 'infeasible', 'base checked in 2..=36 above; a % base fits u32 and is a digit below base'),
    (r"^builtin\(compress\)\|Result::expect\|#0$", 'infeasible', 'reading from an in-memory GzEncoder over a byte slice cannot fail'),
    (r"^builtin\(choose\)\|Option::unwrap\|#[01]$", 'infeasible', 'emptiness is rejected before; gen_range(0..len) is below len'),
    (r"^iter::Rc(HashMap|String)Iter::<.*>::of\|panic!\|#0$", 'infeasible', 'second get_mut right after the first returned Some'),
    (r"^iter::RcVecIter::<.*>::of\|Option::unwrap\|#0$", 'infeasible', 'strong_count == 1 && weak_count == 0 was just tested'),
    (r"^json_decode\|Option::expect\|#0$", 'infeasible', 'a serde_json Number (arbitrary_precision off) is i64, u64 or f64: as_f64 is Some when as_i64 is None'),
    (r"^lex::Lexer::<'a>::lex\|Result::unwrap\|#[012]$", 'infeasible', 'acc holds only ASCII digits (the loop guard), BigInt parsing cannot fail'),
    (r"^lex::Lexer::<'a>::lex_simple_string_after_start\|Option::unwrap\|#0$", 'infeasible', 'd1 * 16 + d2 <= 255 is a valid scalar value'),
    (r"^rc::inner::cell_borrow(_mut)?\|RefCell::borrow(_mut)?\|#0$", 'guarded', 'the panicking wrappers themselves; their two callers are triaged above'),
    (r"^uncons\|panic!\|#0$", 'infeasible', 'the dict was checked non-empty, its iterator yields a first key'),
]

# (function-key regex, kind) -> (count, reason).   kind 'Overflow:Add' entries exclude unit-step counters (auto-discharged).
ARITH_TABLE = [
    (r"^<ComparisonOperator as core::Builtin>::run$", 'Overflow:Sub', 1, 'args.len() - 1 inside Few::Many (two or more arguments)'),
    (r"^<nint::NInt as std::ops::DivAssign<u32>>::div_assign$", 'DivisionByZero', 1, 'only caller is str_radix with base in 2..=36'),
    (r"^<nint::NInt as std::ops::DivAssign<u32>>::div_assign$", 'Overflow:Div', 1, 'divisor is a u32 widened to i64, never -1'),
    (r"^<nnum::NNum as core::MyDisplay>::fmt_with_mut$", 'Overflow:Sub', 2, 'pad_length - len under len < pad_length; pad - pad/2'),
    (r"^<nnum::NNum as core::MyDisplay>::fmt_with_mut$", 'DivisionByZero', 2, 'division by the constant 2'),
    (r"^<streams::CartesianPower as core::Stream>::len::\{closure#0\}$", 'Overflow:Sub', 2, 'len - 1 - v[i] with v[i] < len; the closure runs only for a non-empty cursor, hence a non-empty base'),
    (r"^<streams::Combinations as std::iter::Iterator>::next$", 'Overflow:Sub', 2, 'j - 1 for j >= i + 1; last -= 1 at most len times'),
    (r"^<streams::Cycle as core::Stream>::pythonic_index_isize$", 'Overflow:Add', 1, 'cursor < n and rem_euclid(n) < n', r'rem_euclid'),
    (r"^<streams::Cycle as core::Stream>::pythonic_index_isize$", 'RemainderByZero', 1, 'n = len of a never-empty base (cycle rejects an empty sequence)'),
    (r"^<streams::Cycle as core::Stream>::pythonic_index_isize$", 'Overflow:Rem', 1, 'only for n == -1; n is a length'),
    (r"^<streams::Cycle as core::Stream>::reversed$", 'Overflow:Sub', 1, 'len - cursor with cursor < len'),
    (r"^<streams::Cycle as core::Stream>::reversed$", 'RemainderByZero', 1, 'never-empty base'),
    (r"^<streams::Cycle as std::iter::Iterator>::next$", 'RemainderByZero', 1, 'never-empty base'),
    (r"^<streams::Permutations as core::Stream>::len::\{closure#0\}$", 'Overflow:Sub', 1, 'len - i for i in 1..len'),
    (r"^<streams::Permutations as core::Stream>::len::\{closure#0\}::\{closure#0\}$", 'Overflow:Sub', 2, 'len - 1 - i for i in 1..len'),
    (r"^core::Env::modify_peek$", 'Overflow:Sub', 2, 'internal stack primitive (__internal_peek): internal'),
    (r"^core::Env::try_borrow_peek$", 'Overflow:Sub', 2, 'internal stack primitive: internal'),
    (r"^core::Env::try_borrow_set_peek$", 'Overflow:Sub', 2, 'internal stack primitive: internal'),
    (r"^core::MyFmtFlags::deduct$", 'Overflow:Sub', 1, 'budget -= amt under budget >= amt'),
    (r"^core::Stream::pythonic_index_isize$", 'Overflow:Sub', 1, 'positive counter decremented after an i == 0 test'),
    (r"^core::Stream::pythonic_index_isize$", 'Overflow:Add', 1, 'i + len only on the i < 0 branch'),
    (r"^core::clamped_pythonic_index$", 'Overflow:Add', 1, 'i + len only after i >= 0 returned'),
    (r"^core::pythonic_index_isize$", 'Overflow:Add', 1, 'n + len only under n < 0 (C10 R10.4)'),
    (r"^core::fast_edit_distance$", 'Overflow:Sub', 4, 'a.len() - ai and b.len() - bi with ai <= a.len(), bi <= b.len() (loop invariant)'),
    (r"^core::fast_edit_distance$", 'Overflow:Add', 2, 'dist + remaining lengths, bounded by a.len() + b.len()'),
    (r"^core::parse_format_string$", 'Overflow:Sub', 2, 'i32 nesting counter: decremented at most once per input character'),
    (r"^core::write_string$", 'DivisionByZero', 1, 'division by the constant 2'),
    (r"^decimal::apply_exp10$", 'OverflowNeg', 0, 'uses unsigned_abs (fixed)'),
    (r"^decimal::parse_(unsigned_)?decimal_exactly$", 'Overflow:Sub', 0, 'uses checked_sub (fixed)'),
    (r"^ein::compile_einsum::\{closure#5\}$", 'Overflow:Sub', 1, 'n - 1 for a group that parse_elements rejected when empty ("empty group")'),
    (r"^ein::iterate$", 'RemainderByZero', 1, 'n % prod: prod is a product of non-zero constrained dims (zeros mark the free dim and are skipped)'),
    (r"^ein::iterate$", 'Overflow:Sub', 9, 'index arithmetic over inds/filled_dims of equal length nn <= inn'),
    (r"^ein::iterate::\{closure#2\}$", 'DivisionByZero', 1, 'n / prod under n % prod == 0 with prod != 0'),
    (r"^ein::rearrange$", 'Overflow:Sub', 1, 'rhs_inds.len() - 1 after the empty-rhs error return'),
    (r"^eval::assign_all$", 'Overflow:Sub', 3, 'i - 1 after a splat was seen at a smaller index; lhs.len() - 1 inside the splat arm (lhs non-empty); rhs.len() + si + 1 - lhs.len() under rhs.len() + 1 >= lhs.len() (C12 R12.5)'),
    (r"^eval::assign_all$", 'Overflow:Add', 2, 'sums of lengths of in-memory vectors'),
    (r"^eval::evaluate$", 'Overflow:Sub', 15, 'xs.len() - 1 for a non-empty Sequence; the 14 others are Break/Continue(n - 1) after the n == 0 arm (C05 R5.4)'),
    (r"^<SeqAndMappedFoldBuiltin as core::Builtin>::run[12]?$", 'Overflow:Sub', 1, 'Break(n - 1) after the Break(0) arm (C05 R5.4)'),
    (r"^builtin\(hex_decode\)$", 'RemainderByZero', 2, 'remainder by the constant 2'),
    (r"^builtin\(hex_decode\)::val$", 'Overflow:Sub', 3, 'c - b\'A\' etc. inside the matching range arm'),
    (r"^builtin\(hex_decode\)::val$", 'Overflow:Add', 2, '(c - base) + 10 <= 15'),
    (r"^builtin\(hex_decode\)::\{closure#[01]\}$", 'Overflow:Shl', 1, 'shift by the constant 4 on u8'),
    (r"^builtin\(b_spline\)$", 'Overflow:Sub', 2, 'len - 1 after len == 0 returned; i - 1 under i > 0'),
    (r"^lex::Lexer::<'a>::emit_but_last$", 'Overflow:Sub', 2, 'called only after at least one character of the current token was consumed: col, index >= 1'),
    (r"^lex::Lexer::<'a>::lex$", 'Overflow:Sub', 1, 'i32 nesting depth of a #( comment, starts at 1 and the loop leaves at 0'),
    (r"^lex::Lexer::<'a>::lex_base_64_and_emit::\{closure#0\}$", 'Overflow:Sub', 3, 'd - \'A\' etc. inside the matching character-range arm'),
    (r"^lex::Lexer::<'a>::lex_base_64_and_emit::\{closure#0\}$", 'Overflow:Add', 2, 'offset + 26 / + 52, at most 61'),
    (r"^lex::Lexer::<'a>::lex_simple_string_after_start$", 'Overflow:Mul', 1, 'd1 * 16 with d1 < 16'),
    (r"^lex::Lexer::<'a>::lex_simple_string_after_start$", 'Overflow:Add', 1, 'd1 * 16 + d2 <= 255'),
]

# error-discarding idioms (R14.3): function-key regex -> reason
# R14.3: idioms that look at an NRes without propagating its error - `.ok()`, `is_ok()`, `is_err()`, `unwrap_or*`, `or*`, `err()` calls and
# `Err(_)` match arms are interchangeable spellings of the same thing and share one budget per function: fn-key regex, count, reason
DISCARD_BUDGET = [
    (r"^<streams::(Mapped|Zipped|Filtered)Stream as (std::iter::Iterator|core::Stream)>::(next|peek)$", 1,
     'lazy streams keep their error state in self.0: `.as_mut().ok()?` reads the Ok side, the Err side is reported by the match below it'),
    (r"^(sorted|sorted_by|sorted_on)(::\{closure#\d+\})?$", 1, 'sort comparator: once an error was recorded (ret.is_err()) the remaining comparisons are skipped; the error is returned after the sort'),
    (r"^<Replace as core::Builtin>::run(::\{closure#\d+\})?$", 1, 'regex replacement callback: after the first error the remaining matches are left unchanged and the error is returned afterwards'),
    (r"^eval::evaluate$", 2, 'switch: a pattern that does not match is not an error, the next arm is tried; try/catch: a catch pattern that does not match re-raises the original error'),
    (r"^eval::assign$", 1, 'Lvalue::Or: the first alternative did not match, try the second'),
    (r"^<SeqAndMappedFoldBuiltin as core::Builtin>::run[12]?$", 1, 'e @ Err(_) => return e: propagated unchanged'),
]


# R14.7: partial division-like operations whose divisor is not syntactically guarded: function-key regex, callee last segment -> reason
PARTIAL_TABLE = [
    (r"^nint::NInt::lazy_is_prime$", 'rem', 'trial divisors are 2, 3 and the counter f that starts at 5 and only grows'),
    (r"^builtin\(%\)$", 'rem', 'the zero test covers exactly the exact levels (Int|Rational)^2 (C06 R6.6 checks the coverage); float operands yield NaN, no panic'),
    (r"^decimal::apply_exp10$", 'new', 'the denominator is 10^k, never zero'),
    (r"^nnum::dumb_rational_div_floor$", 'div', 'helper of // on rationals: every caller (builtin //, /!, * pattern) tests the divisor with is_nonzero first (R6.6)'),
    (r"^<streams::Range as core::Stream>::len$", 'div', 'inside the Sign::Plus / Sign::Minus arms of the step: the step is non-zero'),
    (r"^<streams::Cycle as core::Stream>::pythonic_index_isize$", 'rem_euclid', 'the base of a Cycle is never empty: checked separately below (cycle builtin guard, reversed keeps the length)'),
    (r"^builtin\(str_radix\)$", 'rem', 'the base r was checked to be in 2..=36'),
    (r"^builtin\(str_radix\)$", 'div_assign', 'the base was checked to be in 2..=36'),
]


# narrowing / sign-changing integer casts and float->int casts: (function-key regex, 'from->to') -> (count, reason)
CAST_TABLE = [
    (r"^core::pythonic_index_isize$", 'usize->isize', 2, 'a slice length fits isize'),
    (r"^core::pythonic_index_isize$", 'isize->usize', 2, 'n after 0 <= n < len; n + len after n < 0, re-checked against len (a negative sum becomes a huge usize and fails the bound test)'),
    (r"^core::clamped_pythonic_index$", 'isize->usize', 2, 'i >= 0 on that branch; i + len tested >= 0'),
    (r"^core::clamped_pythonic_index$", 'usize->isize', 1, 'a slice length fits isize'),
    (r"^core::Stream::pythonic_index_isize$", 'usize->isize', 1, 'a Vec length fits isize'),
    (r"^core::Stream::pythonic_index_isize$", 'isize->usize', 1, 'i + len re-checked against len'),
    (r"^decimal::apply_exp10$", 'i32->u32', 1, 'under exponent >= 0'),
    (r"^decimal::parse_unsigned_decimal_exactly$", 'usize->u32', 1, 'number of fraction digits of an in-memory string; the i32 conversion next to it is checked (try_from)'),
    (r"^nnum::NNum::pow$", 'u32->i32', 3, 'helper not reachable from the ^ builtin (pow_num is); exponent of a documented small-power helper'),
    (r"^<streams::Repeat as core::Stream>::pythonic_slice$", 'isize->usize', 1, '(hi - lo).max(0)'),
    (r"^<streams::Cycle as core::Stream>::pythonic_index_isize$", 'usize->isize', 2, 'length and cursor of an in-memory vector'),
    (r"^<streams::Cycle as core::Stream>::pythonic_index_isize$", 'isize->usize', 1, 'a value reduced modulo n, in 0..n'),
    (r"^cyclic_index$", 'usize->isize', 1, 'a slice length fits isize'),
    (r"^cyclic_index$", 'isize->usize', 1, 'rem_euclid result in 0..len'),
    (r"^builtin\(b_spline\)$", 'f64->usize', 1, 'floor(t * n): `as` saturates, the result is re-checked against n'),
    (r"^builtin\(hex_decode\)::\{closure#[01]\}$", 'i32->u32', 1, 'the constant shift amount 4'),
    (r"^builtin\(now\)$", 'f64->i32', 1, 'impure builtin (clock), outside the pure language'),
]


# R14.9: indexing operations (v[i], v[a..b], s[a..b], map[k]) that are not auto-discharged (index produced by a normaliser, full range):
# function-key regex, kind, reviewed count, reason. A new indexing site, or one of a new kind (e.g. str instead of [u8]), needs review.
INDEX_TABLE = [
    (r"^<ComparisonOperator as core::Builtin>::run$", 'elem', 7, 'i ranges over 0..len-1 of a Few::Many list (>= 2 operands); the chained form runs only after chained.len() + 2 == args.len()'),
    (r"^<core::WrappedVec<T> as (core::Stream|std::iter::Iterator)>::(peek|next)$", 'elem', 1, 'after the `self.1 >= self.0.len()` exhaustion test'),
    (r"^<streams::(CartesianPower|Combinations|Permutations|Subsequences) as (core::Stream|std::iter::Iterator)>::(next|peek|len)(::\{closure#\d+\})*$", 'elem', 4,
     'cursor vectors: positions come from ranges over v.len(); entries are indices into the base kept < base.len() by next (wrap to 0 / successor < last); Combinations guards k <= n in next and peek (C11 R11.6)'),
    (r"^<streams::Permutations as std::iter::Iterator>::next$", 'range', 1, 'v[inc + 1..] with inc an index found by the preceding scan (inc < v.len())'),
    (r"^<streams::Cycle as (core::Stream|std::iter::Iterator)>::(peek|next|pythonic_index_isize)$", 'elem', 1, 'cursor kept < len by next (wraps); the index form reduces modulo len; the base is never empty (R14.7)'),
    (r"^builtin\(b_spline\)$", 'elem', 5, 'i < n = len - 1 after the `i >= n` early return (which reads vals[n]); i + 2 only under `i + 2 < len`, i - 1 only under `i > 0`; len == 0 rejected'),
    (r"^builtin\(hex_decode\)::\{closure#\d\}$", 'elem', 2, 'chunks(2) of an input whose length was tested even (C16 R16.1): every chunk has two bytes'),
    (r"^builtin\(index\)$", 'elem', 1, 'struct field index stored in the Func::StructField accessor created with the struct definition; instances always hold exactly fields.len() values (call_type)'),
    (r"^(eval::<impl core::Func>::run|eval::modify_existing_index|eval::modify_every_existing_index)$", 'elem', 1, 'struct field index from the definition (see builtin(index))'),
    (r"^core::Env::(modify_peek|try_borrow_peek|try_borrow_set_peek)$", 'elem', 1, '__internal_peek stack primitive: internal (README: "you are on your own"), same verdict as its subtraction in the arithmetic table'),
    (r"^core::call_type$", 'elem', 1, 'fields[args.len()] inside `while args.len() < fields.len()`'),
    (r"^core::fast_edit_distance$", 'elem', 2, 'inside `while ai < a.len() && bi < b.len()`'),
    (r"^core::freeze$", 'elem', 1, 'args[0] under `args.len() == 1`'),
    (r"^decimal::parse_(rational|unsigned_decimal)_exactly$", 'str-range', 4, 'split positions come from str::find of an ASCII character (e, E, ., /): always char boundaries, pos + 1 <= len'),
    (r"^ein::compile_einsum::\{closure#\d\}(::\{closure#0\})?$", 'HashMap', 1, 'after `lhs_set != rhs_set` was rejected every rhs identifier is a key of id_to_idx'),
    (r"^ein::compile_einsum::\{closure#\d\}$", 'elem', 1, 'v[n - 1] for a group of n >= 1 identifiers: parse_elements rejects empty groups ("empty group")'),
    (r"^ein::iterate$", 'elem', 5, 'inds received nn new entries just above; positions inn - 1 - p with p < nn'),
    (r"^ein::parse_einsum$", 'range', 2, 'arrow_idx is the position() of the arrow token (exactly one arrow was counted)'),
    (r"^ein::parse_elements$", 'elem', 1, 'inside `while i < tokens.len()`'),
    (r"^ein::rearrange$", 'elem', 2, 'inds has one entry per lhs identifier and rhs_inds are positions of lhs identifiers; ptr[ri] after `while ptr.len() <= ri { push }`'),
    (r"^ein::rearrange$", 'range', 1, 'rhs_inds[..len - 1] after the is_empty test'),
    (r"^eval::assign_all$", 'range', 2, 'si is the enumerate position of the splat inside lhs: si < lhs.len()'),
    (r"^eval::evaluate$", 'elem', 1, 'ops[0] under `ops.len() == 1`'),
    (r"^eval::evaluate$", 'range', 1, 'xs[..xs.len() - 1] of a Sequence, which the parser never builds empty'),
    (r"^eval::set_index$", 'elem', 2, 'v[i] for i in lo..hi with (lo, hi) from pythonic_slice_obj on the same vector; fields[*field_index] from the struct definition'),
    (r"^eval::set_index$", 'range', 1, 'owned[i..i + 1] with i = pythonic_index(&owned, ..) (Ok arm), so i < len'),
    (r"^eval::weird_string_as_bytes_index$", 'range', 1, 'callers pass an index normalised against the same byte slice (pythonic_index / safe_index_inner): i < len'),
    (r"^linear_index_isize$", 'range', 1, 'bs[i..i + 1] with i = pythonic_index_isize(bs, ..): i < len'),
]


# R14.10: std APIs with an index / range / radix / size precondition (panic when violated) that are not auto-discharged
# (full range, constant radix <= 36, constant non-zero chunk size, insert at 0, constant clamp bounds): fn-key regex, api, count, reason
STDPRE_TABLE = [
    (r"^<Extremum as core::Builtin>::run$", 'Vec::remove', 1, 'removes the function argument at the position just found by the scan over the same vector'),
    (r"^<streams::Permutations as std::iter::Iterator>::next$", 'slice::swap', 1, 'inc and linc are positions found by scans over v (next permutation algorithm)'),
    (r"^core::Obj::try_remove_index$", 'Vec::remove', 1, 'ii = pythonic_index(xs, ..) on the same vector'),
    (r"^core::Obj::try_remove_slice$", 'Vec::drain', 1, '(lo, hi) = pythonic_slice_obj on the same vector: lo <= hi <= len'),
    (r"^core::Parser::expression$", 'Vec::remove', 1, 'ags.remove(0) under `ags.len() == 1`'),
    (r"^core::Stream::pythonic_index_isize$", 'Vec::swap_remove', 1, 'under `i2 < v.len()`'),
    (r"^core::Stream::pythonic_slice$", 'Vec::drain', 1, '(lo, hi) = pythonic_slice on the forced vector'),
    (r"^eval::assign_all$", 'Vec::drain', 2, 'after the `rhs.len() + 1 < lhs.len()` error exit: len + si + 1 - lhs.len() <= len and si <= remaining length'),
    (r"^eval::evaluate$", 'Vec::split_off', 1, '__internal_call stack primitive: internal (README: "you are on your own")'),
    (r"^few::few[23]?$", 'Vec::remove', 4, 'remove(0) in the arm that matched xs.len() = 1, 2 or 3'),
    (r"^builtin\(str_radix\)$", 'char::from_digit', 1, 'base checked in 2..=36 first (C16 R16.1); the digit is a remainder modulo base'),
    (r"^builtin\(int_radix\)$", 'char::to_digit', 2, 'base checked in 2..=36 first (C16 R16.1)'),
    (r"^lex::Lexer::<'a>::lex_base_and_emit(::\{closure#0\})?$", 'char::to_digit', 1, 'base is 2, 8 or 16 (literal prefixes) or the NrD radix already range-checked (C15 R15.4)'),
    (r"^uncons$", 'Vec::remove', 3, 'remove(0) after the is_empty test of the same payload'),
    (r"^uncons$", 'String::remove', 1, 'remove(0) after the is_empty test: position 0 is a char boundary of a non-empty string'),
]
