"""C08 - numeric equality/ordering: exactness by forbidden callees, comparison tables, mirrored arms."""
import re
from .core import (family_calls, builds_error, CheckError, find_match, arm_region, pat_str, strip_ref, origins, only_when, pat_paths,
                   Registry, CallGraph, const_str, op_local)

META = {
    'level': 'other',
    'explanation': (
        'Decides structural clauses, not order laws as theorems: (R8.1) no lossy conversion (to_f64-style helper or '
        'int<->float cast) is reachable from any comparison entry point, and every f64->BigInt conversion on that path '
        'is applied to floor(f) or under an integrality test; (R8.2) exhaustive decision tables of < > <= >= == != <=> >=< '
        'and the max/min bias, the fractional branch of cmp_nint_f64 and its infinity branch; (R8.3) the (Float, Int) arms are '
        'the reversed mirror of the (Int, Float) arms in partial_cmp and both total orders; (R8.4) incomparable operands '
        'become errors in ncmp and sort; (R8.5) sorting is stable; (R8.6) infinities are separated before any partial exact '
        'conversion whose failure would mean "incomparable".'),
    'trusted_base': ['rustc nightly HIR/MIR', 'BigRational::from_float, f64::floor, ToBigInt are exact', 'slice::sort_by is stable'],
    'assumptions': ['trichotomy/transitivity follow from exact comparison in Q u {+-inf}; they are not proved here'],
}

NARROWING = re.compile(r'^to_([iu](8|16|32|64|128|size))$')
LOSSY = ('to_f64', 'nint_to_f64_or_inf', 'rational_to_f64_or_inf', 'to_f64_or_inf_or_complex', 'to_complex_or_inf',
         'to_f32', 'to_i64_wrapping', 'as_f64')


def entry_set(F):
    pats = [
        r'^<nnum::NNum as std::cmp::PartialEq>::eq$', r'^<nnum::NNum as std::cmp::PartialOrd>::partial_cmp$',
        r"^<nnum::NNumReal<'a> as std::cmp::PartialEq>::eq$", r"^<nnum::NNumReal<'a> as std::cmp::PartialOrd>::partial_cmp$",
        r"^nnum::NNumReal::<'a>::total_cmp_(small|big)_nan$", r'^nnum::cmp_nint_f64$', r'^nnum::to_nint_if_int$',
        r"^nnum::NNumReal::<'a>::cmp_as_rationals$",
        r'^nnum::NNum::(total_eq|min|max|min_consuming|max_consuming|total_cmp_small_nan|total_cmp_big_nan)$',
        r'^<core::Obj as std::cmp::PartialEq>::eq$', r'^<core::Obj as std::cmp::PartialOrd>::partial_cmp$',
        r'^<core::Seq as std::cmp::PartialEq>::eq$', r'^<core::Seq as std::cmp::PartialOrd>::partial_cmp$',
        r'^ncmp$', r'^sorted$', r'^sorted_on$', r'^<Extremum as core::Builtin>::run$',
        r'^<nint::NInt as std::cmp::(PartialEq|Ord|PartialOrd)>::',
    ]
    out = []
    missing = []
    for p in pats:
        fs = F.fns_matching(p)
        if not fs:
            missing.append(p)
        out += fs
    return out, missing


def cata_extremum(F):
    """-> (found, ok, why, loc): does CataExtremum::give replace the incumbent iff it is empty or ncmp(candidate, incumbent) == bias?"""
    cg_ = [p_ for p_ in F.fns if 'CataExtremum' in p_ and p_.endswith('::give')]
    if not cg_:
        return False, False, 'CataExtremum::give missing', None
    gb = F.body(cg_[0])
    ncs_ = gb.calls_to('ncmp')
    eqs_ = [c for c in gb.calls if c.target.rsplit('::', 1)[-1] in ('eq', 'ne') and 'Ordering' in (c.da + str(c.callee.get('g')))]
    stores = [bb for bb in gb.reach for s_ in gb.stmts(bb) if s_[0] == 'a' and s_[1][0] == 1 and '*' in s_[1][1:]]
    why = 'no ncmp call (incomparable values would not raise)'
    if ncs_:
        c = ncs_[0]
        a0 = origins(gb, c.args[0])
        a1 = origins(gb, c.args[1])
        cand_first = a0 and all(o[0] == 'param' and o[1] == 'arg' for o in a0) and any(o[0] == 'param' and o[1] == 'self' for o in a1)
        if not cand_first:
            why = 'ncmp is not called as ncmp(candidate, incumbent): ties are then broken the other way round than in max(list)'
        elif len(eqs_) != 1 or not eqs_[0].target.endswith('::eq'):
            why = 'the result of ncmp is not compared with == against the bias'
        else:
            ok_t, _ = only_when(gb, eqs_[0], stores, want=True)
            if ok_t and stores:
                return True, True, '', gb.loc(0)
            why = 'the incumbent is replaced on a path where ncmp(candidate, incumbent) == bias is false (ties / worse candidates replace it)'
    return True, False, why, gb.loc(0)


def run(F, rep, tier):
    reg = Registry(F)
    init = F.body(reg.init)
    # ---------------- R8.1
    rep.rule('R8.1', 'no lossy numeric conversion (to_f64 family, IntToFloat/FloatToInt cast) in the in-crate call closure of the '
             'comparison entry points; f64 -> BigInt only on floor(f) or under an f == trunc(f) test; the Option results of two checked '
             'narrowings (to_i64 ...) are never compared with each other')
    E, missing = entry_set(F)
    for m in missing:
        rep.error('R8.1', 'comparison entry point not found: %s' % m)
    cg = CallGraph(F)
    # direct edges only (no user-function fan-out): comparison never calls back into the interpreter,
    # except Extremum/sorted_on key functions which are not comparison code
    closure = set()
    st = list(E)
    stop = re.compile(r'(Func::run|eval::|core::NErr|FmtObj|fmt::|mut_obj_into_iter|mut_seq_into_iter|clone_and_part_app|MyDisplay|Display|Debug)')
    while st:
        x = st.pop()
        if x in closure:
            continue
        closure.add(x)
        for y in cg.edges.get(x, ()):
            if y == '<indirect>' or y in closure:
                continue
            if stop.search(y):
                continue
            st.append(y)
    rep.extra['comparison_closure'] = sorted(closure)
    n = 0
    for fn in sorted(closure):
        if not F.has_fn(fn):
            continue
        b = F.body(fn)
        bad = [c for c in b.calls if c.target.rsplit('::', 1)[-1] in LOSSY]
        casts = [(i, s) for i in b.reach for s in b.stmts(i) if s[0] == 'a' and s[2][0] == 'cast' and s[2][1] in ('IntToFloat', 'FloatToInt')]
        for c in bad:
            rep.viol('R8.1', '%s|lossy-call|%s' % (fn, c.target.rsplit('::', 1)[-1]),
                     'comparison path calls the lossy conversion %s: big integers / fractions would be compared after rounding to f64' % c.target, c.loc())
        for i, s in casts:
            rep.viol('R8.1', '%s|lossy-cast|%s' % (fn, s[2][1]), 'comparison path contains an `as` cast %s (%s): saturating/rounding, not exact' % (s[2][1], s[2][3]), b.loc(i))
        # f64 -> BigInt
        for c in b.calls:
            if c.target.rsplit('::', 1)[-1] == 'to_bigint' and (c.callee.get('g') or [''])[0] in ('f64', '&f64'):
                og = origins(b, c.args[0])
                from_floor = any(o[0] == 'call' and o[1].rsplit('::', 1)[-1] == 'floor' for o in og) and not any(o[0] in ('param', 'payload') for o in og)
                guarded = False
                if not from_floor:
                    # dominated by the true branch of `f == f.trunc()`
                    for i in b.dominators()[c.bb]:
                        for s in b.stmts(i):
                            if s[0] == 'a' and s[2][0] == 'bin' and s[2][1] == 'Eq' and any(
                                    oo[0] == 'call' and oo[1].rsplit('::', 1)[-1] == 'trunc' for oo in origins(b, s[2][2]) | origins(b, s[2][3])):
                                t = b.term(i)
                                if t[0] == 'switch' and op_local(t[1]) == s[1][0]:
                                    zero = [tb for v, tb in t[2] if v == '0']
                                    if zero and c.bb not in b.reachable_from(zero[0], avoid={i}):
                                        guarded = True
                if from_floor or guarded:
                    rep.ok('R8.1', '%s: f64 -> BigInt' % fn, 'on floor(f)' if from_floor else 'under f == trunc(f)')
                else:
                    rep.viol('R8.1', '%s|to_bigint-unfloored' % fn, 'f64::to_bigint (truncates toward zero) is applied to a float that is neither floored nor known integral: negative fractions compare wrongly', c.loc())
        # two checked narrowings compared as Options: `a.to_i64() == b.to_i64()` is true for every pair of values that both
        # fail to fit (None == None), so two different numbers compare equal
        optcmp = []
        for c in b.calls:
            if c.target.rsplit('::', 1)[-1] in ('eq', 'ne', 'partial_cmp', 'cmp') and len(c.args) == 2:
                sides = []
                for a in c.args:
                    sides.append(sorted(o[1].rsplit('::', 1)[-1] for o in origins(b, a)
                                        if o[0] == 'call' and NARROWING.match(o[1].rsplit('::', 1)[-1])))
                if sides[0] and sides[1]:
                    optcmp.append((c, sides))
        for c, sides in optcmp:
            rep.viol('R8.1', '%s|option-compare|%s' % (fn, '+'.join(sorted(set(sides[0] + sides[1])))),
                     'the Option results of two checked narrowings (%s / %s) are compared with %s: when neither value fits both are None, '
                     'and two different numbers compare equal' % (sides[0], sides[1], c.target.rsplit('::', 1)[-1]), c.loc())
        if not bad and not casts and not optcmp:
            rep.ok('R8.1', fn, 'no lossy conversion')
            n += 1
    rep.floor('R8.1', 'functions in the comparison closure', n, 18)

    # ---------------- R8.2
    rep.rule('R8.2', 'comparison operator tables: < is (ncmp == Less), > is (ncmp == Greater), <= is (ncmp != Greater), >= is '
             '(ncmp != Less); == / != are Obj eq / ne; <=> maps Less/Equal/Greater to -1/0/1 and >=< to 1/0/-1; max has bias Greater, '
             'min has bias Less; cmp_nint_f64 maps the comparison with floor(f) Less->Less, Equal->Less, Greater->Greater and +inf->Less, -inf->Greater',
             exhaustive=True)
    ops = {}
    for c in init.calls_to('ComparisonOperator::of'):
        nm = None
        for r in init.roots(c.args[0]):
            if r[0] == 'const':
                nm = r[1].strip('"')
        cl = None
        for r in init.roots(c.args[1]):
            if r[0] == 'agg' and r[1] == 'closure':
                cl = r[2]
        ops[nm] = cl
    want = {'<': ('eq', 'Less'), '>': ('eq', 'Greater'), '<=': ('ne', 'Greater'), '>=': ('ne', 'Less')}
    for nm, (wop, word) in want.items():
        cl = ops.get(nm)
        if not cl:
            rep.error('R8.2', 'comparison operator %s not registered through ComparisonOperator::of with a closure' % nm)
            continue
        b = F.body(cl)
        nc = b.calls_to('ncmp')
        cmps = [c for c in b.calls if c.target.rsplit('::', 1)[-1] in ('eq', 'ne') and 'Ordering' in (c.da + str(c.callee.get('g')))]
        if len(nc) != 1 or len(cmps) != 1:
            rep.viol('R8.2', 'op|%s|shape' % nm, 'operator %s is not a single ncmp result compared with one Ordering (ncmp calls %d, comparisons %d)' % (nm, len(nc), len(cmps)), b.loc(0))
            continue
        c = cmps[0]
        got_op = c.target.rsplit('::', 1)[-1]
        ords = {r[3] for a in c.args for r in b.roots(a) if r[0] == 'agg' and r[2] == 'std::cmp::Ordering'}
        # argument order of ncmp: (a, b)
        a0 = {r[1] for r in b.roots(nc[0].args[0]) if r[0] == 'param'}
        a1 = {r[1] for r in b.roots(nc[0].args[1]) if r[0] == 'param'}
        if got_op == wop and ords == {word} and a0 == {2} and a1 == {3}:
            rep.ok('R8.2', 'operator %s' % nm, 'ncmp(a, b) %s Ordering::%s' % ('==' if wop == 'eq' else '!=', word))
        else:
            rep.viol('R8.2', 'op|%s|table' % nm, 'operator %s computes ncmp(param %s, param %s) %s %s; expected ncmp(a, b) %s Ordering::%s'
                     % (nm, sorted(a0), sorted(a1), got_op, sorted(ords), wop, word), c.loc())
    for nm, meth in (('==', 'eq'), ('!=', 'ne')):
        cl = ops.get(nm)
        if not cl:
            rep.error('R8.2', 'operator %s not registered' % nm)
            continue
        b = F.body(cl)
        cs = [c for c in b.calls if c.target.rsplit('::', 1)[-1] in ('eq', 'ne')]
        if len(cs) == 1 and cs[0].target.rsplit('::', 1)[-1] == meth and 'core::Obj' in str(cs[0].callee.get('g')) + cs[0].da:
            rep.ok('R8.2', 'operator %s' % nm, cs[0].da)
        else:
            rep.viol('R8.2', 'op|%s|table' % nm, 'operator %s is not Obj::%s (%s)' % (nm, meth, [c.da for c in cs]), b.loc(0))
    three = {'<=>': {'Less': 'neg_one', 'Equal': 'zero', 'Greater': 'one'}, '>=<': {'Less': 'one', 'Equal': 'zero', 'Greater': 'neg_one'}}
    for nm, tab in three.items():
        try:
            bp = reg.body_of(nm)
        except CheckError as e:
            rep.error('R8.2', str(e))
            continue
        b = F.body(bp)
        m = find_match(F, bp, r'Result<std::cmp::Ordering', min_arms=3)
        seen = {}
        for i, a in enumerate(m['arms']):
            ps = [x.rsplit('::', 1)[-1] for x in pat_paths(a['pat'])]
            o = [x for x in ps if x in ('Less', 'Equal', 'Greater')]
            if not o:
                continue
            cs = [c.target.rsplit('::', 1)[-1] for c in b.calls_in(arm_region(F, b, m, i)) if c.target.startswith('core::Obj::')]
            seen[o[0]] = cs
        for k, w in tab.items():
            if seen.get(k) == [w]:
                rep.ok('R8.2', '%s: %s' % (nm, k), 'Obj::' + w)
            else:
                rep.viol('R8.2', 'op|%s|%s' % (nm, k), '%s maps Ordering::%s to %s, expected Obj::%s' % (nm, k, seen.get(k), w), b.loc(0))
        nc = b.calls_to('ncmp')
        a0 = {r[1] for c in nc for r in b.roots(c.args[0]) if r[0] == 'param'}
        a1 = {r[1] for c in nc for r in b.roots(c.args[1]) if r[0] == 'param'}
        if a0 == {2} and a1 == {3}:
            rep.ok('R8.2', '%s operands' % nm, 'ncmp(&a, &b)')
        else:
            rep.viol('R8.2', 'op|%s|operands' % nm, '%s compares in the wrong operand order' % nm, b.loc(0))
    for nm, bias in (('max', 'Greater'), ('min', 'Less')):
        recs = reg.by_name.get(nm, [])
        recs = [r for r in recs if r['adt'] == 'Extremum']
        if not recs:
            rep.error('R8.2', 'builtin %s is not an Extremum literal' % nm)
            continue
        f = recs[0]['fields'].get('bias')
        if f and f[1] == 'std::cmp::Ordering::' + bias:
            rep.ok('R8.2', '%s bias' % nm, bias)
        else:
            rep.viol('R8.2', 'extremum|%s|bias' % nm, '%s is registered with bias %s, expected Ordering::%s' % (nm, f, bias), None)
    # Extremum::run compares ncmp(new, best) == bias and replaces on equality-with-bias only
    ex = F.body(F.anchor('<Extremum as core::Builtin>::run'))
    ncs = ex.calls_to('ncmp')
    eqs = [c for c in ex.calls if c.target.rsplit('::', 1)[-1] in ('eq', 'ne') and 'Ordering' in (c.da + str(c.callee.get('g')))]
    if ncs and len(eqs) == len(ncs) and all(c.target.endswith('::eq') for c in eqs):
        rep.ok('R8.2', 'Extremum::run', '%d sites: candidate replaces best iff ncmp(candidate, best) == bias' % len(ncs))
    else:
        rep.viol('R8.2', 'Extremum::run|shape', 'Extremum::run no longer compares ncmp(..) == self.bias at every site (%d ncmp, %d eq)' % (len(ncs), len(eqs)), ex.loc(0))
    # the comparator handed to sort_by must turn "incomparable" into an error itself: a pre-check over adjacent input pairs is not
    # enough (comparability is not transitive over sequences), and unwrap_or(Equal) silently orders incomparable elements
    for sfn in ('sorted', 'sorted_by', 'sorted_on'):
        if not F.has_fn(sfn):
            rep.error('R8.5', sfn + ' missing')
            continue
        sb_ = F.body(sfn)
        sorts = [c for c in sb_.calls if c.target.rsplit('::', 1)[-1] in ('sort_by', 'sort_unstable_by', 'sort_by_key', 'sort_by_cached_key')]
        cmps = []
        for c in sorts:
            for a_ in c.args[1:]:
                for r_ in sb_.roots(a_):
                    if r_[0] == 'agg' and r_[1] == 'closure':
                        cmps.append(r_[2])
        cmps = cmps or list(F.closures_of(sfn))
        raising = [cl for cl in cmps if any(builds_error(F, c2) or c2.target.rsplit('::', 1)[-1] == 'ncmp' for c2 in family_calls(F, cl))]
        swallow = [cl for cl in cmps if any(c2.target.rsplit('::', 1)[-1] in ('unwrap_or', 'unwrap_or_default', 'unwrap_or_else') and 'Ordering' in str(c2.callee.get('g')) for c2 in family_calls(F, cl))]
        if sorts and raising and not swallow:
            rep.ok('R8.5', '%s comparator' % sfn, 'records an error when two elements are incomparable (ncmp / explicit error)')
        elif sorts:
            rep.viol('R8.5', '%s|comparator-swallows-incomparable' % sfn, 'the comparator %s hands to sort_by does not raise for incomparable elements (raising closures %d, unwrap_or on an Ordering %d): `sort([[1, \'a\'], [2, 0], [1, 3]])` returns an arbitrary arrangement instead of "not comparable"' % (sfn, len(raising), len(swallow)), sorts[0].loc())
    # the folding spelling (`yield .. into max`): same comparison, same operand roles, same tie-breaking as Extremum::run
    found_, ok_, why_, loc_ = cata_extremum(F)
    if not found_:
        rep.error('R8.2', why_)
    elif ok_:
        rep.ok('R8.2', 'CataExtremum::give', 'incumbent replaced iff it is empty or ncmp(candidate, incumbent) == bias (as Extremum::run)')
    else:
        rep.viol('R8.2', 'CataExtremum::give|shape', '`for .. yield x into max|min` no longer agrees with max|min of the list: %s' % why_, loc_)
    # cmp_nint_f64
    cf = F.anchor('nnum::cmp_nint_f64')
    cb = F.body(cf)
    inner = None
    for cl in F.closures_of(cf) + [cf]:
        for m in F.matches.get(cl, []):
            if m['kind'] == 'Normal' and 'std::cmp::Ordering' in m['scrut_ty'] and len(m['arms']) >= 2:
                inner = (cl, m)
    if inner is None:
        rep.viol('R8.2', cf + '|fractional-table', 'cmp_nint_f64: the Less/Equal/Greater table of the fractional branch is gone', cb.loc(0))
    else:
        cl, m = inner
        ib = F.body(cl)
        wantf = {'Less': 'Less', 'Equal': 'Less', 'Greater': 'Greater'}
        covered = set()
        for i, a in enumerate(m['arms']):
            ks = [p_.rsplit('::', 1)[-1] for p_ in pat_paths(a['pat']) if p_.rsplit('::', 1)[-1] in wantf]
            if not ks:
                ks = [k_ for k_ in wantf if k_ not in covered]          # wildcard / binding arm: whatever is left
            got = sorted({s[2][4] for _bb, s in ib.aggregates(arm_region(F, ib, m, i)) if s[2][2] == 'std::cmp::Ordering'})
            for k in ks:
                if k in covered:
                    continue
                covered.add(k)
                if got == [wantf.get(k)]:
                    rep.ok('R8.2', 'cmp_nint_f64 fractional: cmp(a, floor f) = %s' % k, got[0])
                else:
                    rep.viol('R8.2', cf + '|fractional|%s' % k, 'a vs non-integral f: cmp(a, floor f) == %s must give %s, gives %s' % (k, wantf.get(k), got), ib.loc(0))
        if covered != set(wantf):
            rep.viol('R8.2', cf + '|fractional-table', 'cmp_nint_f64: the fractional branch does not decide %s' % sorted(set(wantf) - covered), ib.loc(0))
    sp = [c for c in cb.calls if c.target.endswith('is_sign_positive')]
    inf = [c for c in cb.calls if c.target.endswith('is_infinite')]
    if sp and inf:
        less = [bb for bb, s in cb.aggregates() if s[2][2] == 'std::cmp::Ordering' and s[2][4] == 'Less']
        gr = [bb for bb, s in cb.aggregates() if s[2][2] == 'std::cmp::Ordering' and s[2][4] == 'Greater']
        ok1, _ = only_when(cb, sp[0], less, want=True)
        ok2, _ = only_when(cb, sp[0], gr, want=False)
        if ok1 and ok2 and less and gr:
            rep.ok('R8.2', 'cmp_nint_f64 infinite branch', '+inf -> Less, -inf -> Greater')
        else:
            rep.viol('R8.2', cf + '|infinite', 'cmp_nint_f64: an integer must be Less than +inf and Greater than -inf', sp[0].loc())
    else:
        rep.viol('R8.2', cf + '|infinite', 'cmp_nint_f64 lost its is_infinite / is_sign_positive branch', cb.loc(0))

    # ---------------- R8.3
    rep.rule('R8.3', 'in NNumReal::partial_cmp and both total orders the (Float, Int) arm applies Ordering::reverse to '
             'cmp_nint_f64(int, float) and the (Int, Float) arm does not; all three have the Int/Int, Float/Float and fallback arms',
             exhaustive=True)
    for fn in (F.fns_matching(r"^<nnum::NNumReal<'a> as std::cmp::PartialOrd>::partial_cmp$") +
               F.fns_matching(r"^nnum::NNumReal::<'a>::total_cmp_(small|big)_nan$")):
        b = F.body(fn)
        m = find_match(F, fn, r'NNumReal', min_arms=4)
        kinds = {}
        for i, a in enumerate(m['arms']):
            p = strip_ref(a['pat'])
            if p.get('k') == 'tuple':
                ks = tuple(x.rsplit('::', 1)[-1] for x in pat_paths(p))
            else:
                ks = ('_',)
            regn = arm_region(F, b, m, i)
            calls = b.calls_in(regn)
            cls = [s[2][2] for _bb, s in b.aggregates(regn) if s[2][1] == 'closure']
            names = [c.target.rsplit('::', 1)[-1] for c in calls]
            for cl in cls:
                names += [c.target.rsplit('::', 1)[-1] for c in F.body(cl).calls]
            # one level of small crate helpers (a reversed-comparison helper extracted from the arms), with their closures
            for c in calls:
                if c.target.startswith('nnum::') and F.has_fn(c.target) and not c.target.endswith('cmp_nint_f64') and len(F.body(c.target).blocks) < 40:
                    for hb in [F.body(c.target)] + [F.body(x) for x in F.closures_of(c.target)]:
                        names += [x.target.rsplit('::', 1)[-1] for x in hb.calls]
            kinds[ks] = names
        for ks, must, mustnot in ((('Int', 'Float'), ['cmp_nint_f64'], ['reverse']), (('Float', 'Int'), ['cmp_nint_f64', 'reverse'], [])):
            names = kinds.get(ks)
            if names is None:
                rep.viol('R8.3', '%s|%s|missing' % (fn, ','.join(ks)), 'arm %s missing' % (ks,), b.loc(0))
            elif all(x in names for x in must) and not any(x in names for x in mustnot):
                rep.ok('R8.3', '%s %s' % (fn, ks), 'calls %s' % [x for x in names if x in ('cmp_nint_f64', 'reverse')])
            else:
                rep.viol('R8.3', '%s|%s|mirror' % (fn, ','.join(ks)), 'arm %s must call %s and not %s; calls %s' % (ks, must, mustnot, names), b.loc(0))
        ff = kinds.get(('Float', 'Float'))
        if ff is not None:
            if 'partial_cmp' in ff and 'total_cmp' not in ff:
                rep.ok('R8.3', '%s (Float, Float) op' % fn, 'f64::partial_cmp (IEEE order: -0.0 == 0.0, NaN unordered)')
            else:
                rep.viol('R8.3', '%s|Float,Float|op' % fn, 'two floats are not compared with f64::partial_cmp (%s): total_cmp orders -0.0 below 0.0 and gives NaN a position, contradicting ==' % [x for x in ff if 'cmp' in x], b.loc(0))
        for ks in (('Int', 'Int'), ('Float', 'Float')):
            if ks in kinds:
                rep.ok('R8.3', '%s %s' % (fn, ks), 'present')
            else:
                rep.viol('R8.3', '%s|%s|missing' % (fn, ','.join(ks)), 'arm %s missing' % (ks,), b.loc(0))

    for fn in ('<nnum::NNum as std::cmp::PartialOrd>::partial_cmp', '<nnum::NNum as std::cmp::PartialEq>::eq'):
        if not F.has_fn(fn):
            rep.error('R8.3', 'missing ' + fn)
            continue
        b = F.body(fn)
        proj = [c for c in b.calls if c.target.endswith('project_to_reals')]
        lvl = [m for m in F.matches.get(fn, []) if 'nnum::NNum' in m['scrut_ty'] and m['kind'] in ('Normal', 'Let')]
        if len(proj) == 2 and not lvl and not any(s_[0] == 'a' and s_[2][0] == 'discr' for i in b.reach for s_ in b.stmts(i)):
            rep.ok('R8.3', fn, 'compares the (re, im) projections of both operands, no special case per level')
        else:
            rep.viol('R8.3', fn + '|level-special-case', '%s does not compare the (re, im) projections uniformly (project_to_reals calls %d, level matches %d): a complex number and a real with the same real part become neither <, == nor >' % (fn, len(proj), len(lvl)), b.loc(0))

    # ---------------- R8.4
    rep.rule('R8.4', 'ncmp turns None into an error in both comparable arms and rejects mixed kinds; sorted records an error on None')
    nb = F.body(F.anchor('ncmp'))
    nm_ = find_match(F, 'ncmp', r'core::Obj', min_arms=3)
    okc = 0
    for i, a in enumerate(nm_['arms']):
        regn = arm_region(F, nb, nm_, i)
        names = [c.target.rsplit('::', 1)[-1] for c in nb.calls_in(regn)]
        p = strip_ref(a['pat'])
        if p.get('k') == 'tuple':
            if 'partial_cmp' in names and 'ok_or' in names and any(x.endswith('_error') for x in names):
                okc += 1
                rep.ok('R8.4', 'ncmp arm %s' % pat_str(p), 'partial_cmp(..).ok_or(error)')
            else:
                rep.viol('R8.4', 'ncmp|arm|%s' % pat_str(p), 'ncmp arm does not convert None into an error: %s' % names, nb.loc(0))
        else:
            if any(x.endswith('_error') for x in names) and 'partial_cmp' not in names:
                rep.ok('R8.4', 'ncmp default arm', 'error')
            else:
                rep.viol('R8.4', 'ncmp|default', 'mixed kinds are not rejected by ncmp', nb.loc(0))
    rep.floor('R8.4', 'ncmp comparable arms', okc, 2)
    for cl in F.closures_of('sorted'):
        b = F.body(cl)
        ms = [m for m in F.matches.get(cl, []) if m['kind'] == 'Normal' and 'Option<std::cmp::Ordering>' in m['scrut_ty']]
        if not ms:
            continue
        m = ms[0]
        for i, a in enumerate(m['arms']):
            if any(x.endswith('::None') for x in pat_paths(a['pat'])):
                names = [c.target.rsplit('::', 1)[-1] for c in b.calls_in(arm_region(F, b, m, i))]
                if any(x.endswith('_error') for x in names):
                    rep.ok('R8.4', 'sorted: None arm', 'records an error')
                else:
                    rep.viol('R8.4', 'sorted|none-arm', 'sort treats incomparable elements as equal without raising', b.loc(0))

    # ---------------- R8.5
    rep.rule('R8.5', 'sorting is stable: sorted/sorted_by/sorted_on use slice::sort_by; no sort_unstable* anywhere in the crate')
    uns = [(b.path, c) for b in F.all_bodies() for c in b.calls if 'sort_unstable' in c.target or 'select_nth' in c.target]
    for pth, c in uns:
        rep.viol('R8.5', '%s|unstable-sort' % pth, 'unstable sort %s' % c.target, c.loc())
    for fn in ('sorted', 'sorted_by', 'sorted_on'):
        b = F.body(F.anchor(fn))
        ss = [c for c in b.calls if re.search(r'::sort(_by|_by_key|_by_cached_key)?$', c.target)]
        if ss:
            rep.ok('R8.5', fn, ss[0].target)
        else:
            rep.viol('R8.5', fn + '|no-stable-sort', '%s does not call a stable slice sort' % fn, b.loc(0))

    # ---------------- R8.6
    rep.rule('R8.6', 'every caller of the partial exact conversion (exact_to_rational / from_float) on the ordering path separates '
             'infinities first (is_infinite / infinity_sign dominates the conversion); equality may treat None as unequal')
    n6 = 0
    for fn in sorted(closure):
        if not F.has_fn(fn):
            continue
        b = F.body(fn)
        convs = [c for c in b.calls if c.target.rsplit('::', 1)[-1] in ('exact_to_rational', 'from_float')]
        if not convs or fn.endswith('exact_to_rational'):
            continue
        if 'PartialEq' in fn:
            rep.ok('R8.6', fn, 'equality: a non-finite float equals no rational')
            continue
        n6 += 1
        tests = [c for c in b.calls if c.target.rsplit('::', 1)[-1] in ('is_infinite', 'is_finite', 'infinity_sign')]

        def _callers_separate(f_, depth=0):
            # a helper extracted from an ordering / equality function: every caller is an equality, or tests for infinity before the call
            cs_ = [g for g in closure if f_ in cg.edges.get(g, ()) and g != f_]
            if not cs_ or depth > 2:
                return False
            for g in cs_:
                if 'PartialEq' in g:
                    continue
                gb = F.body(g) if F.has_fn(g) else None
                if gb is None:
                    return False
                gt = [c for c in gb.calls if c.target.rsplit('::', 1)[-1] in ('is_infinite', 'is_finite', 'infinity_sign')]
                sites = [c for c in gb.calls if c.target == f_]
                if sites and gt and all(any(gb.dominates(t.bb, c.bb) for t in gt) for c in sites):
                    continue
                if not _callers_separate(g, depth + 1):
                    return False
            return True
        if tests and all(any(b.dominates(t.bb, c.bb) for t in tests) for c in convs):
            rep.ok('R8.6', fn, 'infinity test dominates %d conversion(s)' % len(convs))
        elif _callers_separate(fn):
            rep.ok('R8.6', fn, 'helper: every caller is an equality or separates infinities before calling it')
        else:
            rep.viol('R8.6', fn + '|inf-before-exact', 'ordering code converts a float exactly without separating +-inf first: a rational and an infinity become "incomparable"', convs[0].loc())
    rep.floor('R8.6', 'ordering functions using the partial exact conversion', n6, 1)
    # ---------------- R8.7
    rep.rule('R8.7', 'comparison is structural: no pointer-identity test (Rc::ptr_eq, Arc::ptr_eq, ptr::eq, ptr::addr_eq, as_ptr comparisons) in '
             'the call closure of the comparison entry points - a value containing NaN is not equal to itself, so identity must not decide == '
             'or <=>; positive control: the fixture crate contains one Rc::ptr_eq the same scan must find')
    IDENT = re.compile(r'(Rc|Arc)<[^>]*>::ptr_eq$|rc::Rc::<T, A>::ptr_eq$|sync::Arc::<T, A>::ptr_eq$|::ptr_eq$|ptr::eq$|ptr::addr_eq$|ptr::fn_addr_eq$')

    def ident_calls(FF, fns):
        out = []
        for fn in sorted(fns):
            if not FF.has_fn(fn):
                continue
            for c in FF.body(fn).calls:
                if IDENT.search(c.target):
                    out.append((fn, c))
        return out
    found = ident_calls(F, closure)
    for fn, c in found:
        rep.viol('R8.7', '%s|pointer-identity' % fn, '%s decides a comparison by pointer identity (%s): `x == x` becomes true and `x <=> x` Equal for a shared value that contains NaN, while an equal but separately built value still compares unequal / incomparable' % (fn, c.target.rsplit('::', 2)[-2] + '::' + c.target.rsplit('::', 1)[-1]), c.loc())
    if not found:
        rep.ok('R8.7', 'comparison closure', '%d function(s), no pointer-identity test' % len(closure))
    import os
    fx = os.path.join(getattr(F, 'verif_dir', os.path.dirname(os.path.dirname(os.path.abspath(__file__)))), 'fixtures', 'unsafe_pos')
    try:
        from .core import Facts
        fp, _c = F.ensure_facts(fx, crate='unsafe_pos')
        FX = Facts(fp)
        hits = ident_calls(FX, FX.fns)
        if len(hits) == 1:
            rep.ok('R8.7', 'positive control fixtures/unsafe_pos', 'the scan reports %s' % hits[0][0])
        else:
            rep.error('R8.7', 'positive control: expected exactly one pointer-identity call in the fixture, found %d' % len(hits))
    except (AttributeError, SystemExit, OSError) as e:
        rep.error('R8.7', 'positive control could not be analysed: %s' % e)
    rep.undecided += ['trichotomy / transitivity / antisymmetry as theorems', 'lexicographic comparison of sequences (std Vec/str partial_cmp)']
    return META
