"""Panic / arithmetic census shared by C14, C15, C16."""
import re
from .core import CallGraph, Registry, const_str, origins

IMPURE = {'input', 'read', 'read_bytes', 'read_compressed', 'interact', 'interact_lines', 'read_file', 'read_file?', 'read_file_bytes',
          'read_file_bytes?', 'list_files', 'write_file', 'append_file', 'run_process', 'time', 'now', 'sleep', 'request', 'request_bytes',
          'request_json', 'path_parent', 'path_join', 'import', 'exit', 'getenv', 'args'}

PANIC_RE = re.compile(r'(panic_fmt$|panic_display$|begin_panic|core::panicking::|panic_explicit|unreachable_display|'
                      r'::unwrap$|::expect$|::unwrap_err$|::expect_err$|std::cell::RefCell::<T>::borrow$|std::cell::RefCell::<T>::borrow_mut$|'
                      r'rc::inner::cell_borrow$|rc::inner::cell_borrow_mut$|::unwrap_unchecked$)')
FOREIGN_CALLBACK_TRAITS_PREFIX = ('std::', 'core::fmt', 'num::', 'num_traits', 'serde')


def kind_of(target):
    last = target.rsplit('::', 1)[-1]
    if 'panic' in target or 'unreachable' in target:
        return 'panic!'
    if last in ('unwrap', 'expect', 'unwrap_err', 'expect_err'):
        recv = 'Option' if 'option::Option' in target else ('Result' if 'result::Result' in target else '?')
        return '%s::%s' % (recv, last)
    if 'cell_borrow' in target or 'RefCell' in target:
        return 'RefCell::' + last
    return last


class Census:
    def __init__(self, F):
        self.F = F
        self.cg = CallGraph(F)
        self.reg = Registry(F)
        # closure -> builtin name (stable key)
        self.body_name = {}
        for nm, recs in self.reg.by_name.items():
            for r in recs:
                if r['body']:
                    self.body_name[r['body']] = nm

    def fn_key(self, path):
        """stable key of a function: registered closures are keyed by their builtin name"""
        parts = []
        p = path
        suffix = ''
        while True:
            if p in self.body_name:
                return 'builtin(%s)%s' % (self.body_name[p], suffix)
            if p in self.F.closure_parent:
                m = re.search(r'::(\{closure#\d+\})$', p)
                suffix = '::' + (m.group(1) if m else '{closure}') + suffix
                p = self.F.closure_parent[p]
            else:
                return p + suffix

    def impure_bodies(self):
        out = set()
        for nm in IMPURE:
            for r in self.reg.by_name.get(nm, []):
                if r['body']:
                    out.add(r['body'])
                    out |= set(self.F.closures_of(r['body']))
        return out

    def pure_reach(self, entries):
        F = self.F
        ents = list(entries)
        # callbacks: local impls of foreign traits may be invoked by foreign generic code
        for imp in F.impls:
            tr = imp['trait']
            if tr and not tr.startswith('core::') or (tr and tr.startswith('core::fmt')):
                for n, p, k in imp['items']:
                    if p in F.bodies_raw:
                        ents.append(p)
        # registered builtin bodies and Builtin/Stream/Catamorphism impl methods
        for imp in F.impls:
            if imp['trait'] in ('core::Builtin', 'core::Stream', 'core::Catamorphism'):
                for n, p, k in imp['items']:
                    if p in F.bodies_raw:
                        ents.append(p)
        imp_b = self.impure_bodies()
        for nm, recs in self.reg.by_name.items():
            for r in recs:
                if r['body'] and r['body'] not in imp_b:
                    ents.append(r['body'])
        reach = self.cg.reachable(ents)
        excluded_mod = re.compile(r'^(optim::|warn$|simple_eval$|cli::|main)')
        return {p for p in reach if p not in imp_b and not excluded_mod.match(p)}

    def panic_sites(self, fns):
        """[(key, fn, call, kind, message)] with per-(fn, kind) ordinals"""
        F = self.F
        out = []
        for fn in sorted(fns):
            if not F.has_fn(fn):
                continue
            b = F.body(fn)
            counts = {}
            for c in sorted(b.calls, key=lambda c: c.bb):
                if not PANIC_RE.search(c.target):
                    continue
                k = kind_of(c.target)
                msg = ''
                for a in c.args:
                    s = const_str(a)
                    if s:
                        msg = s
                fk = self.fn_key(fn)
                n = counts.get(k, 0)
                counts[k] = n + 1
                out.append(('%s|%s|#%d' % (fk, k, n), fn, c, k, msg))
        return out

    def arith_sites(self, fns):
        """MIR asserts (overflow, division, remainder, negation; bounds checks separately) per function"""
        F = self.F
        out = []
        for fn in sorted(fns):
            if not F.has_fn(fn):
                continue
            b = F.body(fn)
            counts = {}
            for bb, t in b.asserts():
                kind = t[3]
                if kind.startswith('Other'):
                    continue
                n = counts.get(kind, 0)
                counts[kind] = n + 1
                out.append(('%s|%s|#%d' % (self.fn_key(fn), kind, n), fn, bb, kind, t[4]))
        return out
