"""Panic / arithmetic census shared by C14, C15, C16."""
import re
from .core import CallGraph, Registry, const_str, origins

IMPURE = {'input', 'read', 'read_bytes', 'read_compressed', 'interact', 'interact_lines', 'read_file', 'read_file?', 'read_file_bytes',
          'read_file_bytes?', 'list_files', 'write_file', 'append_file', 'run_process', 'time', 'now', 'sleep', 'request', 'request_bytes',
          'request_json', 'path_parent', 'path_join', 'import', 'exit', 'getenv', 'args'}

PANIC_RE = re.compile(r'(panic_fmt$|panic_display$|begin_panic|core::panicking::|panic_explicit|unreachable_display|'
                      r'::unwrap$|::expect$|::unwrap_err$|::expect_err$|std::cell::RefCell::<T>::borrow$|std::cell::RefCell::<T>::borrow_mut$|'
                      r'rc::inner::cell_borrow$|rc::inner::cell_borrow_mut$|::unwrap_unchecked$)')
FOREIGN_CALLBACK_TRAITS_PREFIX = ('std::', 'core::fmt', 'num::', 'num_traits', 'serde')


def kind_of(target):
    last = target.rsplit('::', 1)[-1]
    if 'panic' in target or 'unreachable' in target:
        return 'panic!'
    if last in ('unwrap', 'expect', 'unwrap_err', 'expect_err'):
        recv = 'Option' if 'option::Option' in target else ('Result' if 'result::Result' in target else '?')
        return '%s::%s' % (recv, last)
    if 'cell_borrow' in target or 'RefCell' in target:
        return 'RefCell::' + last
    return last


class Census:
    def __init__(self, F):
        self.F = F
        self.cg = CallGraph(F)
        self.reg = Registry(F)
        # closure -> builtin name (stable key)
        self.body_name = {}
        for nm, recs in self.reg.by_name.items():
            for r in recs:
                if r['body']:
                    self.body_name[r['body']] = nm

    def callers_of(self, path):
        """direct in-crate callers of a function; a closure is 'called' by the function that creates it"""
        if getattr(self, '_rev', None) is None:
            rev = {}
            for g, ys in self.cg.edges.items():
                for y in ys:
                    rev.setdefault(y, set()).add(g)
            for c, par in self.F.closure_parent.items():
                rev.setdefault(c, set()).add(par)
            self._rev = rev
        return self._rev.get(path, set())

    def moved_from_reviewed(self, fn, n, spare):
        """A census site sits in a function that has no table entry. It is accepted as *moved* (helper extraction) when the
        function is reached only from functions that do have a reviewed entry of the same kind with unused budget:
        every direct caller G (transitively through other untabled helpers, depth <= 3) satisfies spare(G) >= n, where
        spare(G) = reviewed count - current count of that kind in G. Nothing new was added, operations only moved under a
        caller whose context was reviewed. -> list of callers or None"""
        seen = set()
        tops = set()
        work = [(fn, 0)]
        while work:
            x, d = work.pop()
            if x in seen:
                continue
            seen.add(x)
            cs = self.callers_of(x) - {x}
            if not cs or d > 3:
                return None
            for g in cs:
                sp = spare(g)
                if sp is None:
                    work.append((g, d + 1))       # untabled intermediate helper: look further up
                elif sp >= n:
                    tops.add(g)
                else:
                    return None
        return sorted(tops) if tops else None

    def fn_key(self, path):
        """stable key of a function: registered closures are keyed by their builtin name"""
        parts = []
        p = path
        suffix = ''
        while True:
            if p in self.body_name:
                return 'builtin(%s)%s' % (self.body_name[p], suffix)
            if p in self.F.closure_parent:
                m = re.search(r'::(\{closure#\d+\})$', p)
                suffix = '::' + (m.group(1) if m else '{closure}') + suffix
                p = self.F.closure_parent[p]
            else:
                # a fn item nested in a function / closure body is keyed under its enclosing body too
                par = p.rsplit('::', 1)[0] if '::' in p else None
                if par and (par in self.F.closure_parent or par in self.body_name) and par in self.F.bodies_raw:
                    suffix = '::' + p.rsplit('::', 1)[1] + suffix
                    p = par
                    continue
                return p + suffix

    def impure_bodies(self):
        out = set()
        for nm in IMPURE:
            for r in self.reg.by_name.get(nm, []):
                if r['body']:
                    out.add(r['body'])
                    out |= set(self.F.closures_of(r['body']))
        return out

    def pure_reach(self, entries):
        F = self.F
        ents = list(entries)
        # callbacks: local impls of foreign traits may be invoked by foreign generic code
        for imp in F.impls:
            tr = imp['trait']
            if tr and not tr.startswith('core::') or (tr and tr.startswith('core::fmt')):
                for n, p, k in imp['items']:
                    if p in F.bodies_raw:
                        ents.append(p)
        # registered builtin bodies and Builtin/Stream/Catamorphism impl methods
        for imp in F.impls:
            if imp['trait'] in ('core::Builtin', 'core::Stream', 'core::Catamorphism'):
                for n, p, k in imp['items']:
                    if p in F.bodies_raw:
                        ents.append(p)
        imp_b = self.impure_bodies()
        for nm, recs in self.reg.by_name.items():
            for r in recs:
                if r['body'] and r['body'] not in imp_b:
                    ents.append(r['body'])
        reach = self.cg.reachable(ents)
        excluded_mod = re.compile(r'^(optim::|warn$|simple_eval$|cli::|main)')
        return {p for p in reach if p not in imp_b and not excluded_mod.match(p)}

    def panic_sites(self, fns):
        """[(key, fn, call, kind, message)] with per-(fn, kind) ordinals"""
        F = self.F
        out = []
        for fn in sorted(fns):
            if not F.has_fn(fn):
                continue
            b = F.body(fn)
            counts = {}
            for c in sorted(b.calls, key=lambda c: c.bb):
                if not PANIC_RE.search(c.target):
                    continue
                k = kind_of(c.target)
                msg = ''
                for a in c.args:
                    s = const_str(a)
                    if s:
                        msg = s
                fk = self.fn_key(fn)
                n = counts.get(k, 0)
                counts[k] = n + 1
                out.append(('%s|%s|#%d' % (fk, k, n), fn, c, k, msg))
        return out

    def arith_sites(self, fns):
        """MIR asserts (overflow, division, remainder, negation; bounds checks separately) per function"""
        F = self.F
        out = []
        for fn in sorted(fns):
            if not F.has_fn(fn):
                continue
            b = F.body(fn)
            counts = {}
            for bb, t in b.asserts():
                kind = t[3]
                if kind.startswith('Other'):
                    continue
                n = counts.get(kind, 0)
                counts[kind] = n + 1
                out.append(('%s|%s|#%d' % (self.fn_key(fn), kind, n), fn, bb, kind, t[4]))
        return out


NORMALISERS = ('pythonic_index', 'pythonic_index_isize', 'cyclic_index', 'pythonic_slice_obj', 'pythonic_slice', 'clamped_pythonic_index',
               'obj_to_isize_slice_index', 'safe_index_inner')
INDEX_RE = re.compile(r'::index(_mut)?$')


def index_operand_origins(b, op, depth=0):
    """origins of an index operand; std::ops::Range* aggregates are opened (origins of their bounds)"""
    from .core import origins
    og = origins(b, op, passthru=('branch', 'from_output'))
    out = set()
    for o in og:
        if o[0] == 'agg' and o[1].startswith('std::ops::Range') and depth < 3 and op[0] in ('c', 'm'):
            L = op[1][0]
            seenl = set()
            work = [L]
            while work:
                x = work.pop()
                if x in seenl:
                    continue
                seenl.add(x)
                for (bb, j, kind, st) in b.defs().get(x, []):
                    if kind != 'a':
                        continue
                    rv = st[2]
                    if rv[0] == 'agg' and len(rv) > 5 and str(rv[2]).startswith('std::ops::Range'):
                        if not rv[5]:
                            out.add(('rangefull',))
                        for fo in rv[5]:
                            out |= index_operand_origins(b, fo, depth + 1)
                    elif rv[0] == 'use' and rv[1][0] in ('c', 'm'):
                        work.append(rv[1][1][0])
        else:
            out.add(o)
    return out


def index_sites(census, fns):
    """every panicking indexing operation: MIR BoundsCheck asserts (arrays / slices indexed by usize) and calls of
    Index::index / IndexMut::index_mut on Vec, slices, str and HashMap. -> [(fn_key, kind, body, bb, auto_class or None)]"""
    F = census.F
    out = []
    for fn in sorted(fns):
        if not F.has_fn(fn):
            continue
        b = F.body(fn)
        fk = census.fn_key(fn)
        for bb, t in b.asserts():
            if t[3] == 'BoundsCheck':
                out.append((fk, 'elem', b, bb, None))
        for c in b.calls:
            if not (INDEX_RE.search(c.target) and 'ops::Index' in c.target):
                continue
            g = c.callee.get('g') or []
            ity = str(g[1]) if len(g) > 1 else '?'
            kind = 'str' if ('for str' in c.target or 'string::String' in c.target) else ('HashMap' if 'HashMap' in c.target else ('slice' if 'for [T]' in c.target else ('Vec' if 'vec::Vec' in c.target else 'other')))
            if 'Range' in ity:
                kind += '-range'
            kind = {'Vec': 'elem', 'slice': 'elem', 'Vec-range': 'range', 'slice-range': 'range'}.get(kind, kind)
            auto = None
            if 'RangeFull' in ity:
                auto = 'full-range'
            else:
                og = index_operand_origins(b, c.args[1]) if len(c.args) > 1 else set()
                if og and all((o[0] == 'call' and o[1].rsplit('::', 1)[-1] in NORMALISERS) or (o[0] == 'const') or o[0] == 'rangefull' for o in og) \
                        and any(o[0] == 'call' for o in og) and not kind.startswith('str'):
                    auto = 'normalised'
            out.append((fk, kind, b, c.bb, auto))
    return out


STD_PRE_RE = re.compile(r'(vec::Vec::<T, A>::(remove|insert|swap_remove|drain|split_off|extend_from_within)$|slice::<impl \[T\]>::(swap|split_at|split_at_mut|chunks|chunks_exact|chunks_mut|windows|rchunks|rotate_left|rotate_right|copy_within|select_nth_unstable\w*)$|string::String::(remove|insert|insert_str|drain|replace_range|split_off|truncate)$|str::<impl str>::(split_at|split_at_mut)$|Iterator::step_by$|char::methods::<impl char>::(from_digit|to_digit|is_digit)$|VecDeque<T, A>::(remove|insert|swap|drain|split_off)$|f64>::clamp$|<impl (i|u)(8|16|32|64|128|size)>::(abs|pow|isqrt|ilog\w*|next_power_of_two|clamp)$)')


def std_precondition_sites(census, fns):
    """calls of std APIs that panic when a precondition on an index / range / radix / step argument is violated
    -> [(fn_key, api, body, call, auto_class or None)]"""
    from .core import origins
    F = census.F
    out = []
    for fn in sorted(fns):
        if not F.has_fn(fn):
            continue
        b = F.body(fn)
        fk = census.fn_key(fn)
        for c in b.calls:
            m = STD_PRE_RE.search(c.target)
            if not m:
                continue
            api = c.target.rsplit('::', 1)[-1]
            recv = 'String' if 'string::String' in c.target else ('Vec' if 'vec::Vec' in c.target else ('slice' if 'slice::' in c.target else ('char' if 'char' in c.target else ('str' if 'str::' in c.target else 'num'))))
            api = recv + '::' + api
            auto = None
            if api in ('Vec::drain', 'String::drain', 'Vec::extend_from_within') and len(c.args) > 1:
                og = index_operand_origins(b, c.args[1])
                g = str(c.callee.get('g'))
                if 'RangeFull' in g or (og and all(o[0] == 'rangefull' for o in og)):
                    auto = 'full-range'
            elif api in ('char::to_digit', 'char::from_digit', 'char::is_digit') and len(c.args) > 1:
                og = origins(b, c.args[1])
                vals = [re.match(r'^(\d+)_u32$', o[1]) for o in og if o[0] == 'const']
                if og and len(vals) == len(og) and all(v and 2 <= int(v.group(1)) <= 36 for v in vals):
                    auto = 'const-radix'
            elif api in ('slice::chunks', 'slice::chunks_exact', 'slice::windows', 'slice::rchunks', 'slice::chunks_mut') and len(c.args) > 1:
                og = origins(b, c.args[1])
                vals = [re.match(r'^(\d+)_usize$', o[1]) for o in og if o[0] == 'const']
                if og and len(vals) == len(og) and all(v and int(v.group(1)) > 0 for v in vals):
                    auto = 'const-nonzero-size'
            elif api in ('Vec::insert', 'Vec::remove', 'String::remove', 'String::insert') and len(c.args) > 1:
                og = origins(b, c.args[1])
                if api.endswith('insert') and og and all(o[0] == 'const' and o[1].startswith('0_') for o in og):
                    auto = 'insert-at-0'
            elif api == 'num::clamp':
                og = set()
                for a in c.args[1:]:
                    og |= origins(b, a)
                if og and all(o[0] == 'const' for o in og):
                    auto = 'const-bounds'
            out.append((fk, api, b, c, auto))
    return out


def root_key(fk):
    """the named function a census key belongs to: closures and nested helper fns are folded into it"""
    m = re.match(r'^(builtin\([^)]*\))', fk)
    if m:
        return m.group(1)
    return re.sub(r'::\{closure#\d+\}.*$', '', fk)


_ROOT_BUDGET = None


def root_budget():
    """derived, frozen artefact (tools/mkbudget.py): total number of census sites per (census, named root function, kind) on the
    reviewed tree. Used only as a fallback for sites whose function has no table row: restructuring inside one named function
    (closure <-> nested fn <-> inline) moves sites between keys without adding any."""
    global _ROOT_BUDGET
    if _ROOT_BUDGET is None:
        import json
        import os
        pth = os.path.join(os.path.dirname(os.path.abspath(__file__)), 'root_budget.json')
        try:
            _ROOT_BUDGET = json.load(open(pth))
        except (OSError, ValueError):
            _ROOT_BUDGET = {}
    return _ROOT_BUDGET


def within_root_budget(census_name, groups, fk, kind):
    """groups: {(fn_key, kind): [sites]} of the whole census on the current tree"""
    rb = root_budget().get(census_name, {})
    root = root_key(fk)
    b = rb.get('%s|%s' % (root, kind))
    if b is None:
        return False
    cur = sum(len(v) for k, v in groups.items() if isinstance(k, tuple) and k[1] == kind and root_key(k[0]) == root)
    return cur <= b


INT_W = {'u8': 8, 'i8': 8, 'u16': 16, 'i16': 16, 'u32': 32, 'i32': 32, 'u64': 64, 'i64': 64, 'usize': 64, 'isize': 64, 'u128': 128, 'i128': 128}


def lossy_casts(census, fns):
    """narrowing or sign-changing integer casts and float->int casts: [(fn_key, 'from->to', body, bb)]"""
    F = census.F
    out = []
    for fn in sorted(fns):
        if not F.has_fn(fn):
            continue
        b = F.body(fn)
        for i in sorted(b.reach):
            for s in b.stmts(i):
                if s[0] == 'a' and s[2][0] == 'cast' and s[2][1] in ('IntToInt', 'FloatToInt'):
                    to = s[2][3]
                    o = s[2][2]
                    fr = b.locals[o[1][0]] if o[0] in ('c', 'm') and len(o[1]) == 1 else (o[3] if o[0] == 'k' else '?')
                    if s[2][1] == 'FloatToInt' or (fr in INT_W and to in INT_W and (INT_W[to] < INT_W[fr] or (INT_W[to] == INT_W[fr] and fr[0] != to[0]))):
                        out.append((census.fn_key(fn), '%s->%s' % (fr, to), b, i))
    return out


LAST_CAST_GROUPS = {}


def check_casts(census, fns, rep, rid, table, what):
    import re as _re
    per = {}
    LAST_CAST_GROUPS[rid] = per
    for fk, ft, b, bb in lossy_casts(census, fns):
        per.setdefault((fk, ft), []).append((b, bb))
    for (fk, ft), lst in sorted(per.items()):
        ent = None
        for rx, t, cnt, why in table:
            if t == ft and _re.search(rx, fk):
                ent = (cnt, why)
        if ent and len(lst) <= ent[0]:
            rep.ok(rid, '%s: %s x%d' % (fk, ft, len(lst)), 'reviewed: ' + ent[1])
        elif not ent and within_root_budget('casts', per, fk, ft):
            rep.ok(rid, '%s: %s x%d (moved within %s)' % (fk, ft, len(lst), root_key(fk)), 'the named function has no more such casts than on the reviewed tree')
        else:
            rep.viol(rid, '%s|cast|%s' % (fk, ft), '%s: %d lossy `as` cast(s) %s in %s (reviewed: %d): the value is truncated / wrapped / saturated silently instead of being rejected'
                     % (what, len(lst), ft, fk, ent[0] if ent else 0), lst[-1][0].loc(lst[-1][1]))
    return sum(len(v) for v in per.values())
