"""C12 - patterns, switch, runtime type annotations (static clauses)."""
import re
from .core import (builds_error, scope_constructors, CheckError, find_match, arm_region, pat_str, strip_ref, short, only_when,
                   Registry, every_path_passes_correlated, pat_subsumes, pat_disjoint, pat_paths, origins)

META = {
    'level': 'other',
    'explanation': (
        'Decides structural clauses of C12, not pattern semantics over values: (R12.1) exhaustive '
        'arm-by-arm agreement of type_of and is_type, i.e. `v is type(v)` and `v is anything` for every '
        'value constructor; (R12.2) every type registered by insert_type has an accepting is_type arm; '
        '(R12.3) every closure that writes a declared variable cell runs is_type on every path to its Ok '
        'exit and declaration inserts only when is_type returned true; (R12.4) switch tries arms in order in '
        'a child scope and raises when none matched; (R12.5) the splat length arithmetic in assign_all is '
        'dominated by the comparison that makes it non-negative.'),
    'trusted_base': ['rustc nightly HIR/MIR construction and callee resolution',
                     'span containment for attributing MIR blocks to match arms'],
    'assumptions': ['inverse-constructor patterns, satisfying-predicates and pattern matching over values are not decided'],
}


def arm_constants(F, body, m, i):
    """constants assigned (as whole values) inside an arm body, and whether anything else is"""
    reg = arm_region(F, body, m, i)
    consts = set()
    other = False
    for bb in reg:
        for s in body.stmts(bb):
            if s[0] == 'a':
                rv = s[2]
                if rv[0] == 'use' and rv[1][0] == 'k':
                    consts.add(rv[1][2])
                elif rv[0] in ('use',) and rv[1][0] in ('c', 'm'):
                    pass
                elif rv[0] == 'agg' and rv[1] == 'adt' and rv[2] == 'std::result::Result':
                    pass
                else:
                    other = True
        if body.term(bb)[0] == 'call':
            other = True
    return consts, other


def run(F, rep, tier):
    type_of = F.anchor('core::type_of', ['&core::Obj'], 'core::ObjType')
    is_type = F.anchor('eval::is_type', ['&core::ObjType', '&core::Obj'],
                       'std::result::Result<bool, core::NErr>')
    tb = F.body(type_of)
    ib = F.body(is_type)
    mt = find_match(F, type_of, r'core::Obj\b', min_arms=5)
    mi = find_match(F, is_type, r'core::ObjType', min_arms=5)

    # ---------------- R12.1
    rep.rule('R12.1', 'for every arm P => ObjType::T of type_of, is_type maps (T, P) to the constant true '
             '(first arm that can match subsumes P, earlier arms are disjoint); (Any, _) is true for all values',
             exhaustive=True)
    for a in mt['arms']:
        if a['guard'] or not _no_wild_arm(a):
            pass
    table = []   # (value pattern, T)
    for i, a in enumerate(mt['arms']):
        reg = arm_region(F, tb, mt, i)
        ts = sorted({s[2][4] for _bb, s in tb.aggregates(reg) if s[2][2] == 'core::ObjType'})
        if len(ts) != 1:
            rep.error('R12.1', 'type_of arm %s does not build exactly one ObjType (%s)' % (pat_str(a['pat']), ts))
            continue
        table.append((a['pat'], ts[0], a['guard']))
    rep.floor('R12.1', 'type_of arms', len(table), 14)
    is_arms = []
    for i, a in enumerate(mi['arms']):
        p = strip_ref(a['pat'])
        consts, other = arm_constants(F, ib, mi, i)
        is_arms.append((p, a['guard'], consts, other))

    def decide(tname, vpat):
        """first-match evaluation of is_type on the abstract input (ObjType::tname, vpat)"""
        tp = {'k': 'path', 'p': 'core::ObjType::' + tname}
        for (p, guard, consts, other) in is_arms:
            if p.get('k') in ('wild', 'bind'):
                gt, gv = {'k': 'wild'}, {'k': 'wild'}
            elif p.get('k') == 'tuple' and len(p['s']) == 2:
                gt, gv = p['s']
            else:
                return None, 'unrecognised is_type arm shape %s' % pat_str(p)
            if pat_disjoint(gt, tp) or pat_disjoint(gv, vpat):
                continue
            yields_true = (consts == {'true'} and not other)
            if not yields_true:
                return False, 'arm %s can match and does not yield the constant true' % pat_str(p)
            if pat_subsumes(gt, tp) and pat_subsumes(gv, vpat) and not guard:
                return True, pat_str(p)
            # partial overlap that yields true: keep going for the rest of the values
        return False, 'no arm accepts it'

    for (vpat, tname, guard) in table:
        ok, why = decide(tname, vpat)
        inst = '%s => %s' % (pat_str(vpat), tname)
        if ok:
            rep.ok('R12.1', inst, 'accepted by is_type arm ' + why)
        else:
            rep.viol('R12.1', 'is_type|%s' % tname,
                     'type_of maps %s to ObjType::%s but is_type(%s, that value) is not constantly true: %s'
                     % (pat_str(vpat), tname, tname, why), tb.loc(0))
    ok, why = decide('Any', {'k': 'wild'})
    if ok:
        rep.ok('R12.1', '_ is anything', 'accepted by arm ' + why)
    else:
        rep.viol('R12.1', 'is_type|Any', '`v is anything` is not true for every value: ' + why, ib.loc(0))
    # wildcard default must be false (unequal types reject)
    last = is_arms[-1]
    if last[0].get('k') in ('wild', 'bind') and last[2] == {'false'} and not last[3]:
        rep.ok('R12.1', 'default arm', '_ => false')
    else:
        rep.viol('R12.1', 'is_type|default', 'the default arm of is_type is not the constant false', ib.loc(0))
    # no accepting arm for a unit type may accept a foreign constructor: (T, P) true arms must have P
    # equal to / more specific than some type_of pattern of T, or T in the supertypes table
    supers = {'Number': 'core::Obj::Num', 'Any': None, 'Func': 'core::Obj::Func'}
    for (p, guard, consts, other) in is_arms:
        if p.get('k') != 'tuple' or consts != {'true'} or other:
            continue
        gt, gv = p['s']
        gt = strip_ref(gt)
        if gt.get('k') != 'path':
            continue
        tname = gt['p'].rsplit('::', 1)[-1]
        mine = [vp for (vp, t, _g) in table if t == tname]
        if tname in supers:
            base = supers[tname]
            gvs = strip_ref(gv)
            if base is None or (gvs.get('k') == 'ts' and gvs['p'] == base):
                rep.ok('R12.1', 'supertype arm (%s, %s)' % (tname, pat_str(gv)), 'documented supertype')
            else:
                rep.viol('R12.1', 'is_type|super|%s' % tname, 'supertype %s accepts %s' % (tname, pat_str(gv)), ib.loc(0))
            continue
        if any(pat_subsumes(vp, gv) for vp in mine) or any(pat_subsumes(gv, vp) and
                                                            all(pat_disjoint(gv, o) or t == tname for (o, t, _g) in table) for vp in mine):
            rep.ok('R12.1', 'accepting arm (%s, %s)' % (tname, pat_str(gv)), 'accepts only values type_of classifies as ' + tname)
        else:
            rep.viol('R12.1', 'is_type|overaccept|%s' % tname,
                     'is_type accepts %s as %s but type_of never classifies such a value as %s'
                     % (pat_str(gv), tname, tname), ib.loc(0))

    # ---------------- R12.2
    rep.rule('R12.2', 'every type registered by Env::insert_type in initialize is accepted by some is_type arm '
             'and returned for some constructor by type_of or is a documented supertype', exhaustive=True)
    reg = Registry(F)
    init = F.body(reg.init)
    registered = []
    for c in init.calls_to('core::Env::insert_type'):
        rs = init.roots(c.args[1])
        vs = sorted(r[3] for r in rs if r[0] == 'agg' and r[2] == 'core::ObjType')
        if len(vs) != 1:
            rep.error('R12.2', 'insert_type argument is not one ObjType aggregate at %s' % c.loc())
            continue
        registered.append(vs[0])
    rep.floor('R12.2', 'insert_type registrations', len(registered), 15)
    accepted = set()
    for (p, guard, consts, other) in is_arms:
        if p.get('k') == 'tuple' and consts == {'true'}:
            gt = strip_ref(p['s'][0])
            if gt.get('k') == 'path':
                accepted.add(gt['p'].rsplit('::', 1)[-1])
    produced = {t for (_p, t, _g) in table}
    for t in registered:
        if t not in accepted:
            rep.viol('R12.2', 'registered|%s' % t, 'type %s is registered (nameable in annotations) but no is_type arm accepts any value' % t, init.loc(0))
        elif t not in produced and t not in supers:
            rep.viol('R12.2', 'registered-unproduced|%s' % t, 'type %s is registered but type_of never returns it and it is no documented supertype' % t, init.loc(0))
        else:
            rep.ok('R12.2', 'type ' + t, 'registered, accepted by is_type, produced by type_of or supertype')
    for t in sorted(produced - set(registered)):
        rep.note('type_of returns %s which is not registered by insert_type (not nameable; allowed)' % t)

    # ---------------- R12.3
    rep.rule('R12.3', 'every closure handed to Env::modify_ident / Env::modify_existing_var (the only ways to '
             'reach a variable cell mutably) passes through is_type on every path to an Ok exit, except the '
             'reviewed exceptions; insert_declare reaches Env::insert only when is_type returned true')
    exceptions = {
        ('eval::drop_lhs', None): 'temporary null before op-assign; re-checked by the following assign',
        ('eval::evaluate', 'Consume'): 'consume is outside C12\'s list of checked writers',
        ('eval::evaluate', 'Pop'): 'pop is outside C12\'s list',
        ('eval::evaluate', 'Remove'): 'remove is outside C12\'s list',
        ('core::Env::modify_ident', None): 'forwarder: passes the caller\'s closure through',
        ('core::Env::modify_existing_var', None): 'parent-chain recursion with the same closure',
    }
    evaluate = F.anchor('eval::evaluate')
    try:
        me = find_match(F, evaluate, r'core::Expr\b', min_arms=30)
    except CheckError:
        me = None
    eb = F.body(evaluate)
    checked = 0
    for b in F.all_bodies():
        for c in b.calls:
            if not c.matches('core::Env::modify_ident', 'core::Env::modify_existing_var'):
                continue
            owner = b.path
            while owner in F.closure_parent:
                owner = F.closure_parent[owner]
            arm = None
            if owner == evaluate and me is not None and b.path == evaluate:
                for i, a in enumerate(me['arms']):
                    if F.span_in(c.span, a['sp']):
                        ps = [p for p in _pat_top_paths(a['pat'])]
                        arm = ps[0].rsplit('::', 1)[-1] if ps else None
                        break
            key = (owner, arm)
            if key in exceptions or (owner, None) in exceptions and key[1] is None:
                rep.ok('R12.3', 'exception %s/%s' % key, exceptions.get(key))
                continue
            # the closure argument
            clos = None
            for a in c.args:
                for r in b.roots(a):
                    if r[0] == 'agg' and r[1] == 'closure':
                        clos = r[2]
            if clos is None:
                rep.viol('R12.3', '%s|%s|no-closure' % (owner, arm), 'cannot identify the closure passed to %s' % c.target, c.loc())
                continue
            cb = F.body(clos)
            it = [x.bb for x in cb.calls_to('eval::is_type')]
            oks = _ok_blocks(cb)
            if not oks:
                rep.viol('R12.3', '%s|%s|no-ok' % (owner, arm), 'closure has no Ok exit?', c.loc())
                continue
            okp, why = every_path_passes_correlated(cb, 0, set(oks), set(it)) if it else (False, 'no is_type call')
            if okp:
                rep.ok('R12.3', 'writer closure in %s%s' % (owner, ('/' + arm) if arm else ''),
                       'every path to Ok passes is_type (bb %s)' % sorted(it))
                checked += 1
            else:
                rep.viol('R12.3', '%s|%s|unchecked-write' % (owner, arm),
                         'a closure that writes a variable cell can return Ok without running is_type on the '
                         'declared type (annotation not enforced)', c.loc())
    rep.floor('R12.3', 'type-checked writer closures', checked, 2)
    # insert_declare
    idecl = F.anchor('eval::insert_declare')
    db = F.body(idecl)
    ins = db.calls_to('core::Env::insert')
    its = db.calls_to('eval::is_type')
    if not ins or not its:
        rep.error('R12.3', 'insert_declare: Env::insert or is_type call missing')
    else:
        ok, why = only_when(db, its[0], [x.bb for x in ins], want=True)
        if ok:
            rep.ok('R12.3', 'insert_declare', 'Env::insert reachable only when is_type(ty, rhs) is true')
        else:
            rep.viol('R12.3', 'eval::insert_declare|insert-unguarded', 'declaration inserts without a successful type check: ' + why, ins[0].loc())
    # modify_every's direct closure: write only when is_type true
    # (covered by the path rule above)

    # ---------------- R12.4
    rep.rule('R12.4', 'Expr::Switch: arms are tried by a forward iterator, each in Env::with_parent(env), and the '
             'only exit after the loop is an error; Expr::Try binds in a child scope')
    if me is not None:
        for i, a in enumerate(me['arms']):
            ps = _pat_top_paths(a['pat'])
            nm = ps[0].rsplit('::', 1)[-1] if ps else ''
            if nm == 'Switch':
                reg_ = arm_region(F, eb, me, i)
                cs = eb.calls_in(reg_)
                wp = [c for c in cs if (c.target in scope_constructors(F))]
                rev = [c for c in cs if c.matches('~::rev$')]
                asg = [c for c in cs if c.matches('eval::assign')]
                errs = [c for c in cs if c.matches('~NErr::value_error$', '~NErr::\\w+_error$', 'core::NErr::throw')]
                if wp and all(eb.on_cycle(c.bb) for c in wp) and not rev and asg and errs:
                    rep.ok('R12.4', 'Switch', 'with_parent inside the arm loop, forward iteration, assign per arm, error after loop')
                else:
                    rep.viol('R12.4', 'eval::evaluate|Switch|shape', 'switch arm loop shape changed (with_parent on cycle=%s, rev=%s, assign=%s, error=%s)'
                             % ([eb.on_cycle(c.bb) for c in wp], bool(rev), bool(asg), bool(errs)), eb.loc(min(reg_)) if reg_ else None)
            if nm == 'Switch':
                # first match commits: once an arm's body has been entered, the switch never moves on to a later arm
                reg_ = arm_region(F, eb, me, i)
                cs = eb.calls_in(reg_)
                heads = [c for c in cs if c.target.endswith('::next') and eb.on_cycle(c.bb) and 'slice::Iter' in c.target]
                body_evals = []
                for c in cs:
                    if c.target == 'eval::evaluate' and len(c.args) > 1:
                        og = origins(eb, c.args[1], passthru=('deref', 'as_ref', 'borrow'))
                        if any(o[0] == 'call' and o[1].endswith('::next') for o in og):
                            body_evals.append(c)
                # closures created in the arm that evaluate something: the call they are handed to stands for the evaluation
                for bb, s_ in eb.aggregates(reg_):
                    if s_[2][1] == 'closure' and F.has_fn(s_[2][2]) and any(c2.target == 'eval::evaluate' for c2 in F.body(s_[2][2]).calls):
                        L = s_[1][0]
                        for c in cs:
                            if any(a_[0] in ('m', 'c') and a_[1] and a_[1][0] == L for a_ in c.args) and not c.target.endswith('add_trace'):
                                body_evals.append(c)
                back = [c for c in body_evals for h in heads if h.bb in eb.reachable_from(c.bb)]
                if heads and body_evals and not back:
                    rep.ok('R12.4', 'Switch commits to the first matching arm', '%d body evaluation site(s), none can return to the arm loop' % len(body_evals))
                elif back:
                    rep.viol('R12.4', 'eval::evaluate|Switch|fallthrough', 'after the body of a matching switch arm has run, control can return to the arm loop: an error thrown inside the body is treated as a pattern mismatch and a later arm runs', back[0].loc())
                else:
                    rep.error('R12.4', 'Switch: arm loop or body evaluation not found (%d heads, %d evaluations)' % (len(heads), len(body_evals)))
            if nm == 'Try':
                reg_ = arm_region(F, eb, me, i)
                cs = eb.calls_in(reg_)
                wp = [c for c in cs if (c.target in scope_constructors(F))]
                asg = [c for c in cs if c.matches('eval::assign')]
                if len(wp) == 1 and asg and all(eb.dominates(wp[0].bb, c.bb) for c in asg):
                    rep.ok('R12.4', 'Try', 'catch pattern bound in a child scope')
                else:
                    rep.viol('R12.4', 'eval::evaluate|Try|scope', 'catch clause does not bind in exactly one child scope', eb.loc(min(reg_)) if reg_ else None)
    else:
        rep.error('R12.4', 'evaluate match on Expr not found')

    # ---------------- R12.5
    rep.rule('R12.5', 'assign_all: every usize subtraction on the lengths of the pattern and of the value is '
             'dominated by a comparison of those same quantities (no underflow on short inputs); the number of items a default needs is the '
             'count of non-splat positions before it, not its raw position')
    aa = None
    for p in F.fns:
        if p == 'eval::assign_all' or p.endswith('::assign_all'):
            aa = p
    if aa is None:
        rep.error('R12.5', 'assign_all missing')
    else:
        ab = F.body(aa)
        n = 0
        for bb, t in ab.asserts():
            if not t[3].startswith('Overflow:Sub'):
                continue
            n += 1
            # some conditional branch on a comparison must dominate it, other than the assert itself
            doms = ab.dominators()[bb]
            guarded = False
            for d in doms:
                td = ab.term(d)
                if td[0] == 'switch' and td[4] == 'bool' and d != bb:
                    # the switch operand must derive from a comparison (Lt/Le/Gt/Ge) of lengths
                    for s in ab.stmts(d):
                        if s[0] == 'a' and s[2][0] == 'bin' and s[2][1] in ('Lt', 'Le', 'Gt', 'Ge'):
                            guarded = True
            # `i - 1` where splat.is_some() implies i >= 1: operand constant 1 and lhs an enumerate index
            opsd = t[4]
            const1 = opsd and opsd[1][0] == 'k' and opsd[1][2].startswith('1')
            if guarded:
                rep.ok('R12.5', 'sub #%d' % n, 'dominated by a length comparison')
            elif const1:
                rep.ok('R12.5', 'sub #%d (i - 1)' % n, 'decrement of an enumerate index taken after a splat was seen at a smaller index')
            else:
                rep.viol('R12.5', '%s|Overflow:Sub|#%d' % (aa, n), 'usize subtraction of lengths not dominated by a comparison (underflows on a too-short value)', ab.loc(bb))
        rep.floor('R12.5', 'subtractions in assign_all', n, 2)

        # defaults: the enumerate index counts the splat position too, so the threshold "a default is in play" cannot be the
        # raw index on every path
        wm = find_match(F, aa, r'eval::EvaluatedLvalue', min_arms=3)
        nthr = 0
        if wm:
            for i, a in enumerate(wm['arms']):
                if not any(p_.endswith('::WithDefault') for p_ in pat_paths(a['pat'])):
                    continue
                regn = arm_region(F, ab, wm, i)
                for bb in sorted(regn):
                    for s_ in ab.stmts(bb):
                        if s_[0] == 'a' and s_[2][0] == 'bin' and s_[2][1] in ('Le', 'Lt', 'Ge', 'Gt'):
                            sides = [origins(ab, op) for op in s_[2][2:4]]
                            if not any(any(o[0] == 'param' and o[1] == 'rhs_len' for o in sd) for sd in sides):
                                continue
                            nthr += 1
                            other = [sd for sd in sides if not any(o[0] == 'param' and o[1] == 'rhs_len' for o in sd)]
                            raw = other and all(o[0] == 'call' and o[1].endswith('::next') for o in other[0])
                            if raw:
                                rep.viol('R12.5', '%s|WithDefault|raw-index' % aa, 'the test "is this default in play" compares the length of the value with the raw position of the default in the pattern; that position also counts a preceding ...splat, so after a splat a trailing item that IS present is replaced by its default (`\\a, ...b, c = 5` applied to two arguments)', ab.loc(bb))
                            else:
                                rep.ok('R12.5', 'default threshold', 'position adjusted for a preceding splat: %s' % sorted(str(o[:2]) for o in (other[0] if other else [])))
        rep.floor('R12.5', 'default-in-play comparisons in assign_all', nthr, 1)

    # ---------------- R12.6
    rep.rule('R12.6', 'operator patterns invert their constructor with the inverse operation (table over every Builtin::destructure override): '
             'n + a uses subtraction, -x negation, a * b a remainder test and exact division, a / b numerator and denominator, xs +. x '
             'unsnoc, x .+ xs uncons, and a chained comparison pattern accepts exactly when the comparison expression itself (the operator\'s own '
             'run on the filled-in operands) is truthy', exhaustive=True)
    inv = {'Plus': [r'std::ops::Sub'], 'Minus': [r'std::ops::Neg'], 'Times': [r'std::ops::Rem', r'div_floor$'], 'Divide': [r'::numer$', r'::denom$'],
           'Append': [r'^unsnoc$'], 'Prepend': [r'^uncons$'], 'ComparisonOperator': [r'<ComparisonOperator as core::Builtin>::run$', r'Obj::truthy$']}
    seen_d = set()
    for imp in F.impls_of('core::Builtin'):
        d = F.impl_fn(imp, 'destructure')
        if not d or not F.has_fn(d):
            continue
        ty = imp['self_ty']
        seen_d.add(ty)
        b = F.body(d)
        names = []
        for bd in [b] + [F.body(c) for c in F.closures_of(d)]:
            for c in bd.calls:
                names.append(c.target)
                if c.callee.get('tr'):
                    names.append(c.callee['tr'])
        if ty not in inv:
            rep.viol('R12.6', 'destructure|%s|unlisted' % ty, 'builtin %s can be used as a pattern but its inverse is not in the reviewed table' % ty, b.loc(0))
            continue
        missing = [rx for rx in inv[ty] if not any(re.search(rx, n) for n in names)]
        if missing:
            rep.viol('R12.6', 'destructure|%s|inverse' % ty, 'the %s pattern no longer inverts its constructor through %s' % (ty, missing), b.loc(0))
            continue
        if ty == 'ComparisonOperator':
            tr = [c for c in b.calls if c.target.endswith('Obj::truthy')]
            oks = _ok_blocks(b)
            runs = [c for c in b.calls if c.target == '<ComparisonOperator as core::Builtin>::run']
            fed = any(r[0] == 'call' and r[1] == runs[0].target for r in b.roots(tr[0].args[0])) if tr and runs else False
            if tr and oks and fed and only_when(b, tr[0], oks, want=True)[0]:
                rep.ok('R12.6', 'ComparisonOperator pattern', 'Ok only when self.run(filled operands) is truthy')
            else:
                rep.viol('R12.6', 'destructure|ComparisonOperator|gate', 'the chained-comparison pattern does not gate success on the truthiness of the comparison expression itself', b.loc(0))
        else:
            rep.ok('R12.6', '%s pattern' % ty, 'inverse through %s' % inv[ty])
    for ty in inv:
        if ty not in seen_d:
            rep.viol('R12.6', 'destructure|%s|missing' % ty, 'the documented operator pattern for %s has no destructure implementation' % ty, None)

    # a splat-free sequence pattern needs exactly as many values as names: assign_all_basic compares the two lengths itself
    aab = [p_ for p_ in F.fns if p_.endswith('assign_all_basic')]
    if not aab:
        rep.error('R12.5', 'assign_all_basic missing')
    else:
        bb_ = F.body(aab[0])
        lens_ = [c for c in bb_.calls if c.target.rsplit('::', 1)[-1] == 'len']
        eqs_ = [i for i in bb_.reach for s_ in bb_.stmts(i) if s_[0] == 'a' and s_[2][0] == 'bin' and s_[2][1] in ('Eq', 'Ne')]
        errs_ = [c for c in bb_.calls if builds_error(F, c)]
        if len(lens_) >= 2 and eqs_ and errs_:
            rep.ok('R12.5', 'assign_all_basic', 'lhs.len() == rhs.len() or an error')
        else:
            rep.viol('R12.5', '%s|length-check' % aab[0], 'assign_all_basic no longer compares the number of names with the number of values (%d len calls, %d equality tests, %d error exits): `a, b := \'\u00e9\'` (one character, two bytes) binds only a' % (len(lens_), len(eqs_), len(errs_)), bb_.loc(0))
    # int / floor / ceil / round / trunc of a rational are integers (agree with `is int`)
    for cf_ in ('floor', 'ceil', 'round', 'trunc'):
        fn_ = 'nnum::NNum::' + cf_
        if not F.has_fn(fn_):
            rep.error('R12.1', fn_ + ' missing')
            continue
        cb_ = F.body(fn_)
        m_ = find_match(F, fn_, r'nnum::NNum', min_arms=3)
        okr = None
        for i_, a_ in enumerate(m_['arms']):
            if any(p_.endswith('::Rational') for p_ in pat_paths(a_['pat'])):
                regn = arm_region(F, cb_, m_, i_)
                names_ = [c.target.rsplit('::', 1)[-1] for c in cb_.calls_in(regn)]
                okr = 'to_integer' in names_ or any(n in names_ for n in ('numer', 'into_raw', 'div_floor'))
        if okr:
            rep.ok('R12.1', 'NNum::%s of a rational' % cf_, 'converted to an integer')
        elif okr is False:
            rep.viol('R12.1', '%s|rational-stays-rational' % fn_, 'NNum::%s leaves a rational argument at the rational level (no to_integer): `int(7/2) is int` is false and `x: int = int(9/2)` is refused although the value prints as 4' % cf_, cb_.loc(0))
    # ---------------- R12.7
    rep.rule('R12.7', 'for-clause patterns are evaluated per element: in evaluate_for (Normal and Item iteration) eval_lvalue lies on the loop '
             'cycle and receives the per-iteration scope (the result of Env::with_parent), so annotation and callee expressions inside the '
             'pattern are re-evaluated for every element and each element is checked against the current type')
    ef = 'eval::evaluate_for'
    if not F.has_fn(ef):
        rep.error('R12.7', 'evaluate_for missing')
    else:
        efb = F.body(ef)
        fm = None
        for m in F.matches.get(ef, []):
            if m['kind'] == 'Normal' and 'ForIterationType' in m['scrut_ty']:
                fm = m
        if fm is None:
            rep.error('R12.7', 'evaluate_for: match on ForIterationType missing')
        else:
            seen7 = 0
            for i, a in enumerate(fm['arms']):
                ps = pat_paths(a['pat'])
                v = ps[0].rsplit('::', 1)[-1] if ps else None
                if v not in ('Normal', 'Item'):
                    continue
                regn = arm_region(F, efb, fm, i)
                els = [c for c in efb.calls_in(regn) if c.target.endswith('eval::eval_lvalue') or c.target == 'eval::eval_lvalue']
                if not els:
                    # hoisted out of the arm entirely?
                    els = [c for c in efb.calls if c.target == 'eval::eval_lvalue' and not efb.on_cycle(c.bb)]
                    if els:
                        rep.viol('R12.7', '%s|%s|hoisted' % (ef, v), 'the pattern of a for clause is evaluated once, outside the iteration loop: annotation expressions are not re-evaluated per element', els[0].loc())
                        seen7 += 1
                    continue
                for c in els:
                    seen7 += 1
                    og = origins(efb, c.args[0])
                    fresh = og and all(o[0] == 'call' and (o[1] in scope_constructors(F)) for o in og)
                    if efb.on_cycle(c.bb) and fresh:
                        rep.ok('R12.7', 'evaluate_for %s' % v, 'eval_lvalue inside the loop, in the per-iteration scope')
                    else:
                        rep.viol('R12.7', '%s|%s|hoisted' % (ef, v), 'the pattern of a for clause is evaluated %s: type annotations and callee expressions inside it are not re-evaluated for every element, later elements are checked against a stale type' % ('outside the iteration loop' if not efb.on_cycle(c.bb) else 'in the enclosing scope instead of the per-iteration scope'), c.loc())
            rep.floor('R12.7', 'for-clause pattern evaluations', seen7, 2)
    rep.undecided += ['which names a pattern binds to which parts (value semantics of patterns)',
                      'inverse-constructor patterns (n + 1, a / b, h .+ t) as functions of values',
                      'satisfying-predicate types']
    return META


def _no_wild_arm(a):
    return True


def _pat_top_paths(p):
    p = strip_ref(p)
    k = p.get('k')
    if k in ('ts', 'struct', 'path'):
        return [p['p']]
    if k == 'or':
        out = []
        for x in p['s']:
            out += _pat_top_paths(x)
        return out
    return []


def _ok_blocks(body):
    out = []
    for bb, s in body.aggregates():
        rv = s[2]
        if rv[2] == 'std::result::Result' and rv[4] == 'Ok' and s[1] == [0]:
            out.append(bb)
    return out
