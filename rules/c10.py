"""C10 - indexing/slicing: single normalisation authority, read/write agreement, accessor tables, overflow-freedom."""
import re
from .core import (family_bodies, builds_error, CheckError, find_match, arm_region, pat_str, strip_ref, origins, only_when, pat_paths,
                   Registry, op_local, bool_switches)

META = {
    'level': 'other',
    'explanation': (
        'Decides structural clauses, not the clamp arithmetic as a function: (R10.1) every position used to read, write, remove or '
        'slice a sequence payload in the index/slice/assignment/remove functions is the result of one of the normalisers '
        '(pythonic_index*, pythonic_slice*, clamped_pythonic_index, cyclic_index, safe_index_inner), so reads, writes, pop/remove and '
        '|.. address the same positions by construction; (R10.2) accessor builtins are index/slice expressions with the documented '
        'constants and contain no hand-rolled payload access; (R10.3) index, slice_seq and linear_index_isize handle every Seq kind '
        'explicitly and strings by bytes; (R10.4) machine arithmetic on user indices inside the normalisers is sign-guarded or '
        'reviewed; the default stream slice iterates a prefix only when both bounds are non-negative; (R10.5) non-integer and '
        'non-numeric indices raise.'),
    'trusted_base': ['rustc nightly HIR/MIR', 'std slice/Vec indexing'],
    'assumptions': ['clamped_pythonic_index == Python\'s clamp for all (i, len) is not proved'],
}

N_NAMES = ('pythonic_index', 'pythonic_index_isize', 'pythonic_mut', 'pythonic_slice', 'pythonic_slice_obj',
           'clamped_pythonic_index', 'cyclic_index', 'safe_index_inner')
PT = ('branch', 'unwrap', 'expect', 'next', 'into_iter', 'clone', 'deref', 'from_output', 'into', 'as_ref', 'borrow', 'min', 'max')
POS_METHODS = ('index', 'index_mut', 'remove', 'drain', 'insert', 'swap_remove', 'split_off', 'truncate', 'split_at',
               'split_at_mut', 'get', 'get_mut', 'get_unchecked', 'swap', 'splice', 'nth', 'skip', 'take')


def is_norm(target):
    last = target.rsplit('::', 1)[-1]
    return last in N_NAMES


def range_operands(b, op):
    """if op is (derived from) a std::ops::Range* aggregate built in this body, its operands"""
    out = []
    L = op_local(op)
    if L is None:
        return out
    seen = set()
    st = [L]
    while st:
        x = st.pop()
        if x in seen:
            continue
        seen.add(x)
        for (bb, j, kind, s) in b.defs().get(x, []):
            if kind == 'a':
                rv = s[2]
                if rv[0] == 'agg' and rv[2].startswith('std::ops::Range'):
                    out += rv[5]
                elif rv[0] == 'use' and op_local(rv[1]) is not None:
                    st.append(op_local(rv[1]))
                elif rv[0] == 'ref':
                    st.append(rv[2][0])
            elif kind == 'call':
                last = (s[1].get('d') or '').rsplit('::', 1)[-1]
                if last in PT and s[2]:
                    l2 = op_local(s[2][0])
                    if l2 is not None:
                        st.append(l2)
    return out


def judge_position(b, op, depth=0):
    """(ok, labels): the position derives only from normaliser results / struct-field payloads / constants"""
    bad = []
    for o in origins(b, op, passthru=PT):
        k = o[0]
        if k == 'call' and is_norm(o[1]):
            continue
        if k == 'payload' and 'StructField' in o[3]:
            continue
        if k == 'const':
            continue
        if k == 'agg' and o[1].startswith('std::ops::Range') and depth < 2:
            for sub in range_operands(b, op):
                ok, bl = judge_position(b, sub, depth + 1)
                bad += bl
            continue
        if k == 'bin' and o[1] in ('Add', 'AddWithOverflow') and depth < 2:
            # i + 1 as the end of a one-element range: accept const + normalised position
            okb = True
            found = False
            for i_ in b.reach:
                for s_ in b.stmts(i_):
                    if s_[0] == 'a' and s_[2][0] == 'bin' and s_[2][1] == o[1]:
                        found = True
                        x, y = s_[2][2], s_[2][3]
                        if y[0] == 'k' and y[2].startswith('1_'):
                            ok2, bl = judge_position(b, x, depth + 1)
                            okb = okb and ok2
                        else:
                            okb = False
            if found and okb:
                continue
        if k == 'call':
            bad.append('call:' + o[1].rsplit('::', 2)[-1] if '::' not in o[1] else 'call:' + '::'.join(o[1].rsplit('::', 2)[-2:]))
        elif k == 'param':
            bad.append('param:' + o[1])
        else:
            bad.append('%s:%s' % (k, o[1] if len(o) > 1 else ''))
    return (not bad), sorted(set(bad))


def run(F, rep, tier):
    reg = Registry(F)
    # ---------------- R10.1
    rep.rule('R10.1', 'in index, slice_seq, set_index, modify_existing_index, modify_every_existing_index, try_remove_index, '
             'try_remove_slice, linear_index_isize, safe_index, obj_cyclic_index, weird_string_as_bytes_index and the |.. builtin every '
             'positional access to a payload (Index/IndexMut/remove/drain/insert/... and slice bounds checks) takes its position from a '
             'normaliser result (struct-field indices excepted)')
    fns = ['eval::index', 'eval::slice_seq', 'eval::set_index', 'eval::modify_existing_index',
           'eval::modify_every_existing_index', 'core::Obj::try_remove_index', 'core::Obj::try_remove_slice',
           'linear_index_isize', 'safe_index', 'obj_cyclic_index']
    try:
        fns.append(reg.body_of('|..'))
    except CheckError as e:
        rep.error('R10.1', str(e))
    n1 = 0
    for fn in fns:
        if not F.has_fn(fn):
            rep.error('R10.1', 'anchor missing: %s' % fn)
            continue
        sites = []
        # the function and the private helpers split off from it (not the other entry points, not the normalisers themselves)
        fam = [b_ for b_ in family_bodies(F, fn) if b_.path == fn or (b_.path not in fns and not re.search(r'pythonic_|clamped_|cyclic_index$|safe_index_inner$', b_.path))]
        for b in fam:
            for c in b.calls:
                last = c.target.rsplit('::', 1)[-1]
                g = c.callee.get('g') or ['']
                if last in POS_METHODS and len(c.args) >= 2 and not ('HashMap' in g[0] or 'hash' in c.target.lower() or 'HashSet' in g[0]):
                    if last in ('get', 'get_mut', 'insert', 'remove', 'take', 'skip', 'nth') and not re.search(r'(Vec<|\[|String|str)', g[0]):
                        continue
                    sites.append((b, c, c.args[1], last))
            for bb, t in b.asserts():
                if t[3] == 'BoundsCheck':
                    sites.append((b, None, t[4][1], 'bounds@%d' % bb))
        for b, c, op, what in sites:
            n1 += 1
            ok, bad = judge_position(b, op)
            where = c.loc() if c is not None else b.loc(int(what.split('@')[1]))
            if ok:
                rep.ok('R10.1', '%s: %s' % (fn, what.split('@')[0]), 'position from a normaliser')
            else:
                rep.viol('R10.1', '%s|%s|%s' % (fn, what.split('@')[0], ','.join(bad)),
                         'payload position in %s (%s) is computed from %s instead of a shared normaliser: reads and writes may address different elements' % (fn, what.split('@')[0], bad), where)
    rep.floor('R10.1', 'positional payload accesses', n1, 28)
    # per kind: which normaliser each sequence arm of the reader/writers uses (sibling agreement)
    # every normaliser itself: pythonic_index -> pythonic_index_isize; pythonic_mut -> pythonic_index; slice family -> clamped
    chain = {'core::pythonic_index': 'pythonic_index_isize', 'core::pythonic_mut': 'pythonic_index',
             'core::pythonic_slice': 'clamped_pythonic_index', 'core::pythonic_slice_obj': 'pythonic_slice'}
    for fn, callee in chain.items():
        if not F.has_fn(fn):
            rep.error('R10.1', 'normaliser %s missing' % fn)
            continue
        b = F.body(fn)
        if any(c.target.rsplit('::', 1)[-1] == callee for c in b.calls):
            rep.ok('R10.1', '%s delegates' % fn, callee)
        else:
            rep.viol('R10.1', fn + '|delegation', '%s no longer delegates to %s: two normalisation authorities' % (fn, callee), b.loc(0))

    # ---------------- R10.2
    rep.rule('R10.2', 'accessor builtins are index/slice expressions: first/second/third/last = linear_index_isize(s, 0/1/2/-1); '
             'tail = slice(a, Some(1), None); butlast = slice(a, None, Some(-1)); take n = slice(a, None, Some(n)); drop n = '
             'slice(a, Some(n), None); !! = index; !? = safe_index; !% = obj_cyclic_index; none of them touches a payload directly',
             exhaustive=True)

    def body_for(nm):
        if nm in reg.by_name and reg.by_name[nm][0]['body']:
            return reg.by_name[nm][0]['body']
        if nm in reg.unit:
            return F.impl_fn(reg.unit[nm], 'run')
        raise CheckError('builtin %r not found' % nm)

    lin = {'first': '0_isize', 'second': '1_isize', 'third': '2_isize', 'last': '-1_isize'}
    for nm, const in lin.items():
        try:
            b = F.body(body_for(nm))
        except CheckError as e:
            rep.error('R10.2', str(e))
            continue
        cs = b.calls_to('linear_index_isize')
        if len(cs) == 1 and cs[0].args[1][0] == 'k' and cs[0].args[1][2] == const:
            rep.ok('R10.2', nm, 'linear_index_isize(s, %s)' % const)
        else:
            rep.viol('R10.2', 'builtin|%s|index' % nm, '%s is not linear_index_isize(s, %s): %s' % (nm, const, [(c.target, c.args[1][:3]) for c in cs]), b.loc(0))

    def opt_desc(b, op):
        """describe an Option<Obj> argument: 'None', 'Some(<origin>)'"""
        os_ = origins(b, op)
        out = []
        for o in os_:
            if o[0] == 'agg' and o[1] == 'std::option::Option':
                if o[2] == 'None':
                    out.append('None')
                else:
                    # find the aggregate and describe its operand
                    for bb, s in b.aggregates():
                        if s[2][2] == 'std::option::Option' and s[2][4] == 'Some' and s[1][0] == op_local(op) or True:
                            pass
                    out.append('Some')
            else:
                out.append(str(o[0]))
        return sorted(set(out))

    def some_payload(b, op):
        """origins of the payload of a Some(..) aggregate feeding op"""
        res = set()
        L = op_local(op)
        seen = set()
        st = [L]
        while st:
            x = st.pop()
            if x in seen or x is None:
                continue
            seen.add(x)
            for (bb, j, kind, s) in b.defs().get(x, []):
                if kind == 'a':
                    rv = s[2]
                    if rv[0] == 'agg' and rv[2] == 'std::option::Option' and rv[4] == 'Some':
                        res |= {(o[0], o[1] if len(o) > 1 else '') for o in origins(b, rv[5][0], passthru=('from', 'into'))}
                    elif rv[0] == 'use':
                        st.append(op_local(rv[1]))
        return res

    slices = {'tail': ('Some', 'None', 'one'), 'butlast': ('None', 'Some', '-1'), 'take': ('None', 'Some', 'param'), 'drop': ('Some', 'None', 'param')}
    for nm, (wlo, whi, wval) in slices.items():
        try:
            b = F.body(body_for(nm))
        except CheckError as e:
            rep.error('R10.2', str(e))
            continue
        cs = [c for c in b.calls if c.target in ('eval::slice',)]
        direct = [c for c in b.calls if c.target.rsplit('::', 1)[-1] in ('truncate', 'drain', 'split_off', 'make_mut', 'index', 'index_mut', 'to_vec', 'skip', 'take')
                  and 'Vec' in str(c.callee.get('g'))] + [c for c in b.calls if 'Rc' in c.target and c.target.endswith('make_mut')]
        if direct:
            rep.viol('R10.2', 'builtin|%s|direct-payload' % nm, '%s manipulates a payload directly (%s) instead of going through slice(): its positions are not normalised like s[a:b]' % (nm, sorted({c.target for c in direct})), direct[0].loc())
            continue
        if len(cs) != 1:
            rep.viol('R10.2', 'builtin|%s|slice' % nm, '%s does not call slice exactly once (%d)' % (nm, len(cs)), b.loc(0))
            continue
        c = cs[0]
        lo, hi = opt_desc(b, c.args[1]), opt_desc(b, c.args[2])
        val_op = c.args[1] if wlo == 'Some' else c.args[2]
        pay = some_payload(b, val_op)
        okv = False
        if wval == 'param':
            okv = bool(pay) and all(p[0] == 'param' for p in pay)
        elif wval == 'one':
            okv = pay == {('call', 'core::Obj::one')}
        elif wval == '-1':
            okv = any(p[0] == 'call' for p in pay) and any(s[0] == 'a' and s[2][0] == 'use' and s[2][1][0] == 'k' and s[2][1][2].startswith('-1_') for i in b.reach for s in b.stmts(i)) \
                or any(a[0] == 'k' and a[2].startswith('-1_') for cc in b.calls for a in cc.args)
        if lo == [wlo] and hi == [whi] and okv:
            rep.ok('R10.2', nm, 'slice(a, %s, %s) with bound %s' % (wlo, whi, wval))
        else:
            rep.viol('R10.2', 'builtin|%s|slice-args' % nm, '%s calls slice(a, %s, %s) with bound origin %s; expected slice(a, %s, %s) with %s' % (nm, lo, hi, sorted(pay), wlo, whi, wval), c.loc())
    for nm, callee in (('!!', 'eval::index'), ('!?', 'safe_index'), ('!%', 'obj_cyclic_index'), ('index', 'eval::index')):
        try:
            bp = body_for(nm)
        except CheckError as e:
            rep.error('R10.2', str(e))
            continue
        # the body may be the function itself (registered by path) or a closure calling it
        if bp == callee or any(c.target == callee for c in F.body(bp).calls):
            rep.ok('R10.2', nm, callee)
        else:
            rep.viol('R10.2', 'builtin|%s|callee' % nm, '%s does not go through %s' % (nm, callee), None)

    # ---------------- R10.3
    rep.rule('R10.3', 'index, slice_seq and linear_index_isize name every Seq kind (List, String, Dict, Vector, Bytes, Stream) in an arm of '
             'their own (no wildcard over kinds) and index strings through as_bytes', exhaustive=True)
    for fn, scr in (('eval::index', r'core::Seq'), ('eval::slice_seq', r'core::Seq'), ('linear_index_isize', r'core::Seq')):
        if not F.has_fn(fn):
            rep.error('R10.3', 'missing ' + fn)
            continue
        b = F.body(fn)
        best = None
        for m in F.matches.get(fn, []):
            if m['kind'] != 'Normal':
                continue
            kinds = set()
            for a in m['arms']:
                for p in pat_paths(a['pat']):
                    if p.startswith('core::Seq::'):
                        kinds.add(p.rsplit('::', 1)[-1])
            if best is None or len(kinds) > len(best):
                best = kinds
        need = {'List', 'String', 'Dict', 'Vector', 'Bytes', 'Stream'}
        if best and need <= best:
            rep.ok('R10.3', fn, 'all six kinds have their own arm')
        else:
            rep.viol('R10.3', fn + '|kinds', '%s lacks an explicit arm for %s' % (fn, sorted(need - (best or set()))), b.loc(0))
        if any(c.target.endswith('::as_bytes') for c in b.calls):
            rep.ok('R10.3', fn + ' strings', 'indexed through as_bytes()')
        else:
            rep.viol('R10.3', fn + '|string-bytes', '%s does not index strings by byte' % fn, b.loc(0))

    # ---------------- R10.4
    rep.rule('R10.4', 'overflow/remainder asserts on user indices inside the normalisers and stream index/slice overrides: an addition of '
             'the length to an index is reachable only on the negative side of a comparison of that index with 0; every other assert '
             'is in the reviewed table; the default Stream::pythonic_slice iterates a prefix only under lo >= 0 (and hi >= 0)')
    reviewed = {
        ('core::Stream::pythonic_index_isize', 'Overflow:Sub'): 'i -= 1 runs only after i != 0 on the i >= 0 branch: a positive counter',
        ('<streams::Cycle as core::Stream>::pythonic_index_isize', 'Overflow:Add'): 'cursor < n and rem_euclid(n) < n: the sum is below 2n',
        ('<streams::Cycle as core::Stream>::pythonic_index_isize', 'RemainderByZero'): 'n = len of the base, never 0: the cycle builtin rejects an empty base and reversed keeps the length',
        ('<streams::Cycle as core::Stream>::pythonic_index_isize', 'Overflow:Rem'): 'overflows only for n == -1; n is a length',
        ('<streams::Repeat as core::Stream>::pythonic_slice', 'Overflow:Sub#hi-lo'): 'hi - lo is computed only when both have the same sign (the (true,true)|(false,false) arm)',
    }
    cand = [p for p in F.fns if re.search(r'(pythonic_|clamped_pythonic|cyclic_index$|safe_index_inner$)', p)]
    n4 = 0
    for fn in sorted(cand):
        b = F.body(fn)
        for bb, t in b.asserts():
            kind = t[3]
            if kind == 'BoundsCheck':
                continue
            n4 += 1
            ops = t[4]
            params = set()
            for o in ops:
                for og in origins(b, o):
                    if og[0] == 'param':
                        params.add(og[1])
            if kind == 'Overflow:Add' and params:
                # sign guard
                guarded = False
                for i in b.dominators()[bb]:
                    for s in b.stmts(i):
                        if s[0] == 'a' and s[2][0] == 'bin' and s[2][1] in ('Lt', 'Ge') and s[2][3][0] == 'k' and s[2][3][2].startswith('0_') \
                                and any(og[0] == 'param' and og[1] in params for og in origins(b, s[2][2])):
                            for (sw, tt, ff) in bool_switches(b, s[1][0]):
                                nonneg = ff if s[2][1] == 'Lt' else tt
                                if bb not in b.reachable_from(nonneg, avoid={sw}):
                                    guarded = True
                if guarded:
                    rep.ok('R10.4', '%s: %s' % (fn, kind), 'len is added only when the index is negative')
                    continue
            key = (fn, kind)
            if fn.startswith('<streams::Repeat') and kind == 'Overflow:Sub':
                c1 = ops[1][0] == 'k' and ops[1][2].startswith('1_')
                key = (fn, 'Overflow:Sub#x-1' if c1 else 'Overflow:Sub#hi-lo')
            if key in reviewed:
                rep.ok('R10.4', '%s: %s' % (fn, key[1]), 'reviewed: ' + reviewed[key])
            else:
                pnames = ','.join(sorted(params)) or 'derived'
                rep.viol('R10.4', '%s|%s|%s' % (fn, key[1], pnames), 'unguarded machine arithmetic on a user-supplied index in %s (%s on %s): overflows near the ends of the isize range' % (fn, kind, pnames), b.loc(bb))
    rep.floor('R10.4', 'arithmetic asserts in the normalisers', n4, 8)
    # default stream slice guards
    sp = 'core::Stream::pythonic_slice'
    if F.has_fn(sp):
        b = F.body(sp)
        ms = [m for m in F.matches.get(sp, []) if m['kind'] == 'Normal' and len(m['arms']) >= 3]
        if not ms:
            rep.error('R10.4', 'Stream::pythonic_slice match missing')
        else:
            m = ms[0]
            for i, a in enumerate(m['arms']):
                p = strip_ref(a['pat'])
                regn = arm_region(F, b, m, i)
                forces = any(c.target.endswith('::force') for c in b.calls_in(regn))
                if not a['guard']:
                    if forces:
                        rep.ok('R10.4', 'stream slice default arm', 'negative bounds force the stream and reuse pythonic_slice')
                    else:
                        rep.viol('R10.4', sp + '|default-arm', 'the fallback arm of the stream slice does not force the stream', b.loc(0))
                    continue
                some_hi = any(x.endswith('::Some') for x in pat_paths(p))
                # comparisons with 0 evaluated between the match head and this arm's body: count distinct compared roots
                body_entry = min(regn) if regn else None
                compared = set()
                for bb2 in b.reach:
                    if not F.span_in(b.blocks[bb2]['sp'], a['sp']) and not any(s[0] == 'a' and F.span_in(s[-1], a['sp']) for s in b.stmts(bb2)):
                        continue
                    if bb2 in regn:
                        continue
                    for s in b.stmts(bb2):
                        if s[0] == 'a' and s[2][0] == 'bin' and s[2][1] in ('Ge', 'Lt') and s[2][3][0] == 'k' and s[2][3][2].startswith('0_'):
                            compared.add(frozenset(str(o) for o in origins(b, s[2][2])))
                want = 2 if some_hi else 1
                if len(compared) >= want:
                    rep.ok('R10.4', 'stream slice arm %s' % pat_str(p), 'guard tests %d bound(s) against 0' % len(compared))
                else:
                    rep.viol('R10.4', sp + '|guard|%s' % ('lo,hi' if some_hi else 'lo'), 'the prefix-iterating arm %s tests only %d of %d bounds for non-negativity: a negative bound would be counted from the wrong end' % (pat_str(p), len(compared), want), b.loc(body_entry) if body_entry is not None else None)
    else:
        rep.error('R10.4', 'core::Stream::pythonic_slice missing')

    # ---------------- R10.6
    rep.rule('R10.6', 'in the normalisers every isize -> usize cast is applied to a value known to be non-negative: a comparison of that same '
             'value with 0 dominates the cast on its non-negative side, or it is a rem_euclid / max(.,0) result, or it is the reviewed '
             'wrap-around idiom of pythonic_index_isize (negative sums become huge and fail the following bound test)')
    wrap_idiom = {'core::pythonic_index_isize': 'n + len cast and then compared against len: a negative sum wraps to a huge usize and is rejected',
                  'core::Stream::pythonic_index_isize': 'same idiom: i + len cast, then compared against len',
                  '<streams::Repeat as core::Stream>::pythonic_slice': '(hi - lo).max(0)',
                  '<streams::Cycle as core::Stream>::pythonic_index_isize': '(cursor + i.rem_euclid(n)) % n with both summands in 0..n'}
    n6 = 0
    for fn in sorted(cand) + ['cyclic_index']:
        if not F.has_fn(fn):
            continue
        b = F.body(fn)
        for i in sorted(b.reach):
            for s_ in b.stmts(i):
                if not (s_[0] == 'a' and s_[2][0] == 'cast' and s_[2][1] == 'IntToInt' and s_[2][3] == 'usize'):
                    continue
                o = s_[2][2]
                if o[0] not in ('c', 'm') or b.locals[o[1][0]] != 'isize':
                    continue
                n6 += 1
                og = origins(b, o)
                if any(x[0] == 'call' and x[1].rsplit('::', 1)[-1] in ('rem_euclid', 'max') for x in og):
                    rep.ok('R10.6', '%s: cast of a reduced value' % fn, 'rem_euclid / max result')
                    continue
                vals = {str(x[:3]) for x in og}
                guarded = False
                for d in b.dominators()[i]:
                    for t_ in b.stmts(d):
                        if t_[0] == 'a' and t_[2][0] == 'bin' and t_[2][1] in ('Lt', 'Ge') and t_[2][3][0] == 'k' and t_[2][3][2].startswith('0_'):
                            if {str(x[:3]) for x in origins(b, t_[2][2])} == vals:
                                for (sw, tt, ff) in bool_switches(b, t_[1][0]):
                                    nonneg = ff if t_[2][1] == 'Lt' else tt
                                    neg = tt if t_[2][1] == 'Lt' else ff
                                    if i in b.reachable_from(nonneg, avoid={sw}) and i not in b.reachable_from(neg, avoid={sw}):
                                        guarded = True
                if guarded:
                    rep.ok('R10.6', '%s: isize -> usize' % fn, 'only on the non-negative side of a comparison of the same value with 0')
                elif fn in wrap_idiom:
                    rep.ok('R10.6', '%s: isize -> usize' % fn, 'reviewed: ' + wrap_idiom[fn])
                else:
                    rep.viol('R10.6', '%s|unguarded-isize-to-usize' % fn, 'a possibly negative isize is cast to usize in %s without a sign test of that value: a bound below -len wraps to a huge index instead of clamping to 0' % fn, b.loc(i))
    rep.floor('R10.6', 'isize -> usize casts in the normalisers', n6, 6)

    # ---------------- R10.5
    rep.rule('R10.5', 'pythonic_index and obj_to_isize_slice_index raise on a non-integer (to_isize() == None) and on a non-numeric index')
    for fn in ('core::pythonic_index', 'core::obj_to_isize_slice_index', 'cyclic_index'):
        if not F.has_fn(fn):
            rep.error('R10.5', 'missing ' + fn)
            continue
        b = F.body(fn)
        toi = [c for c in b.calls if c.target.endswith('::to_isize')]
        errs = [c for c in b.calls if builds_error(F, c)]
        if toi and len(errs) >= 2:
            rep.ok('R10.5', fn, 'to_isize + %d error exits' % len(errs))
        else:
            rep.viol('R10.5', fn + '|errors', '%s lost an error exit for non-integer / non-numeric indices (to_isize calls %d, error constructors %d)' % (fn, len(toi), len(errs)), b.loc(0))
    # ---------------- R10.7
    rep.rule('R10.7', 'stream implementations that override pythonic_index_isize / pythonic_slice answer relative to the current position: '
             'no path reads the backing data and produces an element without reading every field that next() advances (same analysis as '
             'C11/R11.7, restricted to the two indexing entry points)')
    from .streamfields import next_writes, reads, cursor_free_paths
    n107 = 0
    for imp in F.impls_of('core::Stream'):
        ty = imp['self_ty']
        base = ty.split('<')[0]
        its = [i for i in F.impls if i['trait'] == 'std::iter::Iterator' and i['self_ty'] == ty]
        nxt = F.impl_fn(its[0], 'next') if its else None
        adt = F.adts.get(base)
        if not nxt or not F.has_fn(nxt) or not adt:
            continue
        allf = ['f%d:%s' % (i, f['name']) for i, f in enumerate(adt['variants'][0]['fields'])]
        w = next_writes(F.body(nxt))
        for m in ('pythonic_index_isize', 'pythonic_slice'):
            fn = F.impl_fn(imp, m)
            if not fn or not F.has_fn(fn):
                continue
            n107 += 1
            fb = F.body(fn)
            r, _whole = reads(fb, allf)
            free = cursor_free_paths(fb, allf, w) if (w and r) else []
            if free or (r and not w <= r):
                rep.viol('R10.7', '%s|%s|cursor' % (base, m), '%s::%s can index the backing data without consulting %s, the position next() advances: `s[i]` on a partially consumed stream is answered from the start (or, for negative i, bounded by the start) of the underlying data' % (ty, m, sorted(w)), fb.loc(free[0][0]) if free else fb.loc(0))
            else:
                rep.ok('R10.7', '%s::%s' % (base, m), 'next advances %s, override reads %s' % (sorted(w) or 'nothing', sorted(r)))
    rep.floor('R10.7', 'index/slice overrides', n107, 3)
    # ---------------- R10.10
    rep.rule('R10.10', 'only integers index: NNum::to_isize / to_usize (the conversions every index and slice bound goes through) answer for the '
             'Int level only - no float or rational conversion inside them, so `xs[1.5]`, `xs[2.0]` stay index errors on reads and writes alike')
    for cf in ('nnum::NNum::to_isize', 'nnum::NNum::to_usize'):
        if not F.has_fn(cf):
            rep.error('R10.10', cf + ' missing')
            continue
        cb_ = F.body(cf)
        conv = [c for c in cb_.calls if re.search(r'to_(isize|usize|i64|u64|i32|u32)$', c.target)]
        bad_ = [c for c in conv if not ('nint::NInt' in c.target or 'NInt' in str(c.callee.get('g')))]
        if conv and not bad_:
            rep.ok('R10.10', cf, 'only NInt is converted')
        else:
            rep.viol('R10.10', cf + '|non-integer-level', '%s converts a non-integer level (%s): a fractional float truncates to an index, so `xs[1.5]` reads and `x[1.5] = v` writes element 1 instead of raising' % (cf, [c.target[-50:] for c in bad_][:2] or 'no NInt conversion found'), (bad_ or conv or [None])[0].loc() if (bad_ or conv) else cb_.loc(0))
    # ---------------- R10.9
    rep.rule('R10.9', 'clamping is for slice bounds only: clamped_pythonic_index is called from the slice normalisers (pythonic_slice*) and nowhere '
             'else - an element access that clamps an out-of-range index returns some element instead of raising an index error')
    ncl = 0
    for p_ in sorted(F.bodies_raw):
        if '::promoted' in p_:
            continue
        b_ = F.body(p_)
        for c in b_.calls:
            if c.target.endswith('clamped_pythonic_index'):
                ncl += 1
                owner = p_
                while owner in F.closure_parent:
                    owner = F.closure_parent[owner]
                if re.search(r'pythonic_slice', owner.rsplit('::', 1)[-1]):
                    rep.ok('R10.9', '%s -> clamped_pythonic_index' % owner, 'slice normaliser')
                else:
                    rep.viol('R10.9', '%s|clamped-index' % owner, '%s normalises an index with the clamping helper meant for slice bounds: an index before the start (or past the end) is silently moved to the first (last) position instead of raising' % owner, c.loc())
    rep.floor('R10.9', 'clamped_pythonic_index call sites', ncl, 2)
    # ---------------- R10.8
    rep.rule('R10.8', 'slice sections keep absent bounds absent: in Func::run (and the closures it defines) every match on a slice-section '
             'bound (Option<Box<Option<Obj>>>, also seen through as_deref as Option<&Option<Obj>>) selects for the input None - "the section '
             'was written without this bound" - an arm that does not consume an argument (no Iterator::next); only Some(None), the `_` slot, does')
    from .c04 import _matches
    frn = 'eval::<impl core::Func>::run'
    n108 = 0
    if not F.has_fn(frn):
        rep.error('R10.8', 'Func::run missing')
    else:
        for fn8 in [frn] + list(F.closures_of(frn)):
            b8 = F.body(fn8)
            for m in F.matches.get(fn8, []):
                if m['kind'] != 'Normal':
                    continue
                if not re.search(r'Option<(std::boxed::Box<|&)\s*std::option::Option<core::Obj>', m['scrut_ty']):
                    continue
                n108 += 1
                sel = None
                for i, a in enumerate(m['arms']):
                    if _matches(a['pat'], {'k': 'path', 'p': 'None'}) and not a.get('guard'):
                        sel = i
                        break
                if sel is None:
                    rep.error('R10.8', '%s: no arm for an absent bound in a match on %s' % (fn8, m['scrut_ty']))
                    continue
                regn = arm_region(F, b8, m, sel)
                nx = [c for c in b8.calls_in(regn) if c.target.rsplit('::', 1)[-1] == 'next']
                if nx:
                    rep.viol('R10.8', '%s|absent-bound-consumes' % fn8, 'for a slice section written without a bound (e.g. `_[:_]`) the absent bound takes an argument: `_[:_]` applied to (s, b) computes s[b:] instead of s[:b]', nx[0].loc())
                else:
                    rep.ok('R10.8', '%s match on %s' % (fn8.rsplit('::', 1)[-1], m['scrut_ty'][-60:]), 'None -> arm %d, consumes nothing' % sel)
        rep.floor('R10.8', 'matches on slice-section bounds', n108, 1)
    rep.undecided += ['clamped_pythonic_index equals Python\'s clamp as a function of (i, len)', 'stream index/slice values']
    return META
