"""C17 - freeze: scope-model agreement with the evaluator, identity rewrite, every child frozen, guarded folds."""
import re
from .core import (family_bodies, try_body_scope, scope_constructors, CheckError, find_match, arm_region, pat_str, strip_ref, origins, only_when, pat_paths,
                   Registry, op_local, bool_switches)

META = {
    'level': 'other',
    'explanation': (
        'Decides structural agreement of the two traversals (freeze and evaluate) of one syntax tree, not semantic equivalence over '
        'programs: (R17.1) per Expr variant, freeze opens a copy of its binding environment exactly where evaluate opens a child '
        'scope (For, While, Switch per arm, Try for the catch clause only, Lambda), and binds pattern identifiers for exactly the '
        'binding constructs; (R17.2) every arm rebuilds the variant it matched, the only other construction being Frozen for the three '
        'documented folds; (R17.3) every sub-expression / sub-pattern field of the rebuilt node comes out of the freeze family; (R17.4) '
        'the error exits of freeze and freeze_lvalue are reachable only when warn is false; (R17.5) constant folding of unary minus '
        'requires the builtin named "-", exactly one argument and a numeric constant, and list folding requires every element constant; '
        '(R17.6) Expr::Freeze freezes against the current environment with an empty bound set and warn = false.'),
    'trusted_base': ['rustc nightly HIR/MIR'],
    'assumptions': ['that the frozen program computes the same values is not decided'],
}

FREEZE_FAMILY = ('freeze', 'box_freeze', 'box_freeze_underscore_ok', 'rc_freeze', 'opt_box_freeze', 'opt_rc_freeze', 'vec_box_freeze',
                 'vec_box_freeze_underscore_ok', 'freeze_lvalue', 'box_freeze_lvalue', 'freeze_ios')


def is_ff(target):
    return target.startswith('core::') and target.rsplit('::', 1)[-1] in FREEZE_FAMILY


def closure_closure(F, b, region):
    """closures created in region, transitively"""
    out = []
    st = [s[2][2] for _bb, s in b.aggregates(region) if s[2][1] == 'closure']
    while st:
        c = st.pop()
        if c in out or not F.has_fn(c):
            continue
        out.append(c)
        cb = F.body(c)
        st += [s[2][2] for _bb, s in cb.aggregates() if s[2][1] == 'closure']
    return out


def run(F, rep, tier):
    fz = F.anchor('core::freeze')
    fb = F.body(fz)
    fm = find_match(F, fz, r'core::Expr\b', min_arms=30)
    evaluate = F.anchor('eval::evaluate')
    eb = F.body(evaluate)
    me = find_match(F, evaluate, r'core::Expr\b', min_arms=30)
    CLONE = '<core::FreezeEnv as std::clone::Clone>::clone'
    BIND = 'core::FreezeEnv::bind'

    def arms_of(m):
        out = {}
        for i, a in enumerate(m['arms']):
            for p in pat_paths(a['pat']):
                if p.startswith('core::Expr::'):
                    out.setdefault(p.rsplit('::', 1)[-1], []).append(i)
        return out
    farms = arms_of(fm)
    earms = arms_of(me)
    rep.floor('R17.1', 'freeze arms', len(farms), 50)
    if set(farms) != set(earms):
        rep.viol('R17.1', 'arms|coverage', 'freeze and evaluate do not cover the same Expr variants: only freeze %s, only evaluate %s' % (sorted(set(farms) - set(earms)), sorted(set(earms) - set(farms))), fb.loc(0))
    wild = [a for a in fm['arms'] if strip_ref(a['pat']).get('k') in ('wild', 'bind')]
    if wild:
        rep.viol('R17.2', fz + '|wildcard', 'freeze has a wildcard arm: new constructs would be copied unfrozen', fb.loc(0))

    # ---------------- R17.1
    rep.rule('R17.1', 'scope models agree: freeze copies its FreezeEnv exactly in For, While, Switch (inside the per-arm closure), Try (after the '
             'body is frozen in the outer env) and Lambda - the constructs for which evaluation creates a child Env; bind() is called exactly '
             'for Assign, Struct, For clauses, Switch, Try and Lambda', exhaustive=True)
    eval_scoped = set()
    for v, idxs in earms.items():
        regn = set()
        for i in idxs:
            regn |= arm_region(F, eb, me, i)
        if any(c.target in scope_constructors(F) for c in eb.calls_in(regn)):
            eval_scoped.add(v)
    eval_scoped |= {'For', 'Lambda'}   # through evaluate_for and Closure::run (decided by C05 R5.1/R5.2)
    fregions = {}
    for v, idxs in farms.items():
        regn = set()
        for i in idxs:
            regn |= arm_region(F, fb, fm, i)
        fregions[v] = regn
    for v in sorted(farms):
        regn = fregions[v]
        direct = [c for c in fb.calls_in(regn) if c.target == CLONE]
        cls = closure_closure(F, fb, regn)
        inner = [(cl, c) for cl in cls for c in F.body(cl).calls if c.target == CLONE]
        has = bool(direct or inner)
        if has != (v in eval_scoped):
            if has:
                rep.viol('R17.1', 'scope|%s|extra' % v, 'freeze opens a binding scope for Expr::%s but evaluation does not' % v, (direct[0] if direct else inner[0][1]).loc())
            else:
                rep.viol('R17.1', 'scope|%s|missing' % v, 'evaluation opens a scope for Expr::%s but freeze binds its names in the enclosing scope' % v, fb.loc(min(regn)) if regn else None)
            continue
        if v == 'Switch':
            if inner and not direct:
                rep.ok('R17.1', 'Expr::Switch', 'one FreezeEnv copy per arm (inside the arm closure)')
            else:
                rep.viol('R17.1', 'scope|Switch|per-arm', 'the switch arms share one binding environment in freeze: a name bound by an earlier arm\'s pattern stays bound in later arms (free variables there are no longer resolved at freeze time)', (direct[0] if direct else inner[0][1]).loc() if has else None)
        elif v == 'Try':
            ffs = [c for c in fb.calls_in(regn) if is_ff(c.target)]
            before = [c for c in ffs if direct and fb.dominates(c.bb, direct[0].bb)]
            if len(direct) == 1 and before:
                rep.ok('R17.1', 'Expr::Try', 'body frozen in the outer scope, catch clause in a copy')
            else:
                rep.viol('R17.1', 'scope|Try|catch-only', 'try: the body must be frozen before the binding environment is copied for the catch clause', direct[0].loc() if direct else None)
        elif has:
            rep.ok('R17.1', 'Expr::%s' % v, 'copies FreezeEnv (%d site)' % (len(direct) + len(inner)))
        else:
            rep.ok('R17.1', 'Expr::%s' % v, 'no scope on either side')
    ok_t, det_t, loc_t = try_body_scope(F)
    if ok_t is None:
        rep.error('R17.1', 'Try: ' + det_t)
    elif ok_t:
        rep.ok('R17.1', 'evaluate Expr::Try body scope', det_t)
    else:
        rep.viol('R17.1', 'scope|Try|body-in-child-scope', 'evaluation runs the body of `try` in a child scope (%s) while freeze and the documented scoping treat declarations of a try body as declarations of the enclosing scope: a name declared in a try body is invisible afterwards, and frozen code resolves it lazily in the outer scope' % det_t, loc_t)
    want_bind = {'Assign', 'Struct', 'For', 'Switch', 'Try', 'Lambda'}
    for v in sorted(farms):
        regn = fregions[v]
        cls = closure_closure(F, fb, regn)
        binds = [c for c in fb.calls_in(regn) if c.target == BIND] + [c for cl in cls for c in F.body(cl).calls if c.target == BIND]
        if bool(binds) == (v in want_bind):
            if binds:
                rep.ok('R17.1', 'bind in Expr::%s' % v, '%d bind call(s)' % len(binds))
        else:
            rep.viol('R17.1', 'bind|%s' % v, 'freeze %s bind pattern identifiers for Expr::%s' % ('does not' if v in want_bind else 'unexpectedly does', v), fb.loc(min(regn)) if regn else None)
    # declared_only flags: Assign -> true, Switch/Try/Lambda -> false
    ci = 'collect_identifiers'
    for v, want_flag in (('Assign', 'true'), ('Switch', 'false'), ('Try', 'false'), ('Lambda', 'false')):
        regn = fregions.get(v, set())
        bodies = [(fb, regn)] + [(F.body(cl), None) for cl in closure_closure(F, fb, regn)]
        flags = set()
        for b, rg in bodies:
            for c in (b.calls_in(rg) if rg is not None else b.calls):
                if c.target.rsplit('::', 1)[-1] == ci and len(c.args) >= 2 and c.args[1][0] == 'k':
                    flags.add(c.args[1][2])
        if flags == {want_flag}:
            rep.ok('R17.1', 'collect_identifiers in %s' % v, 'declared_only = ' + want_flag)
        else:
            rep.viol('R17.1', 'bind|%s|declared_only' % v, 'Expr::%s binds with declared_only in %s, expected %s' % (v, sorted(flags), want_flag), fb.loc(min(regn)) if regn else None)

    # ---------------- R17.2 / R17.3
    rep.rule('R17.2', 'identity rewrite: every arm of freeze builds only the Expr variant it matched; extra constructions are limited to '
             'Frozen in the Ident, Call and List arms (documented folds) and Ident/Underscore on the warn path', exhaustive=True)
    rep.rule('R17.3', 'every field of the rebuilt node whose type contains LocExpr or Lvalue originates from a member of the freeze family '
             '(or a collect() over a closure calling one); scalar fields are copied from the matched node')
    expr_adt = F.adts.get('core::Expr')
    fields_of = {v['name']: v['fields'] for v in expr_adt['variants']} if expr_adt else {}
    allowed_extra = {'Ident': {'Frozen'}, 'Call': {'Frozen'}, 'List': {'Frozen'}}
    n3 = 0
    for v in sorted(farms):
        regn = fregions[v]
        cls = closure_closure(F, fb, regn)
        built = {}
        for bb, s in fb.aggregates(regn):
            if s[2][2] == 'core::Expr':
                built.setdefault(s[2][4], []).append((fb, bb, s))
        for cl in cls:
            cb = F.body(cl)
            for bb, s in cb.aggregates():
                if s[2][2] == 'core::Expr':
                    built.setdefault(s[2][4], []).append((cb, bb, s))
        extra = set(built) - {v} - allowed_extra.get(v, set())
        if v not in built:
            rep.viol('R17.2', 'rewrite|%s|not-rebuilt' % v, 'the %s arm of freeze does not rebuild Expr::%s (builds %s)' % (v, v, sorted(built)), fb.loc(min(regn)) if regn else None)
        elif extra:
            rep.viol('R17.2', 'rewrite|%s|other-variant' % v, 'the %s arm of freeze also builds %s' % (v, sorted(extra)), built[sorted(extra)[0]][0][0].loc(built[sorted(extra)[0]][0][1]))
        else:
            rep.ok('R17.2', 'Expr::%s' % v, 'rebuilt as itself%s' % (' (+Frozen fold)' if 'Frozen' in built and v != 'Frozen' else ''))
        # R17.3
        fl = fields_of.get(v, [])
        cl_calls_ff = any(is_ff(c.target) for cl in cls for c in F.body(cl).calls)
        for (b, bb, s) in built.get(v, []):
            for idx, f in enumerate(fl):
                needs = any(m in ('adt:core::LocExpr', 'adt:core::Lvalue', 'adt:core::ForIteration', 'adt:core::ForBody', 'adt:core::IndexOrSlice') for m in f['mentions'])
                if not needs or idx >= len(s[2][5]):
                    continue
                n3 += 1
                og = origins(b, s[2][5][idx], passthru=('branch', 'new', 'from_output', 'into', 'from'))
                okf = bool(og)
                why = []
                for o in og:
                    if o[0] == 'call' and is_ff(o[1]):
                        continue
                    if o[0] == 'call' and o[1].rsplit('::', 1)[-1] in ('collect',) and cl_calls_ff:
                        continue
                    if o[0] == 'agg' and o[1] in ('core::ForBody', 'core::LocExpr') and v in ('For', 'Underscore'):
                        continue
                    okf = False
                    why.append(str(o[:2]))
                if okf:
                    rep.ok('R17.3', 'Expr::%s field %d (%s)' % (v, idx, f['ty'][:40]), 'from the freeze family')
                else:
                    rep.viol('R17.3', 'child|%s|field%d' % (v, idx), 'Expr::%s is rebuilt with field %d (%s) taken from %s instead of a frozen copy: free variables inside it are resolved at call time, not at freeze time' % (v, idx, f['ty'][:50], why), b.loc(bb))
    rep.floor('R17.3', 'sub-expression fields', n3, 60)
    # ForBody payloads are frozen
    regn = fregions.get('For', set())
    fbd = [(bb, s) for bb, s in fb.aggregates(regn) if s[2][2] == 'core::ForBody']
    okfb = all(all(any(o[0] == 'call' and is_ff(o[1]) for o in origins(fb, op, passthru=('branch',))) or origins(fb, op) <= {('agg', 'std::option::Option', 'None')} or
                   all(o[0] == 'agg' and o[1] == 'std::option::Option' for o in origins(fb, op, passthru=('branch',))) for op in s[2][5]) for bb, s in fbd)
    if fbd and okfb:
        rep.ok('R17.3', 'ForBody payloads', '%d constructions, all frozen' % len(fbd))
    elif fbd:
        rep.viol('R17.3', 'child|For|body', 'a for-loop body / yield expression is rebuilt unfrozen', fb.loc(fbd[0][0]))
    # freeze_lvalue identity rewrite
    fl_ = 'core::freeze_lvalue'
    if F.has_fn(fl_):
        lb = F.body(fl_)
        lm = find_match(F, fl_, r'core::Lvalue', min_arms=8)
        for i, a in enumerate(lm['arms']):
            ps = [p for p in pat_paths(a['pat']) if p.startswith('core::Lvalue::')]
            if not ps:
                continue
            v = ps[0].rsplit('::', 1)[-1]
            regn = arm_region(F, lb, lm, i)
            built = {s[2][4] for _bb, s in lb.aggregates(regn) if s[2][2] == 'core::Lvalue'}
            for cl in closure_closure(F, lb, regn):
                built |= {s[2][4] for _bb, s in F.body(cl).aggregates() if s[2][2] == 'core::Lvalue'}
            if built == {v}:
                rep.ok('R17.2', 'Lvalue::%s' % v, 'rebuilt as itself')
            else:
                rep.viol('R17.2', 'rewrite-lvalue|%s' % v, 'freeze_lvalue rebuilds Lvalue::%s as %s' % (v, sorted(built)), lb.loc(min(regn)) if regn else None)
        # R17.3 for patterns: every LocExpr / Lvalue / IndexOrSlice child of a rebuilt pattern node is frozen
        lv_adt = F.adts.get('core::Lvalue')
        lv_fields = {v_['name']: v_['fields'] for v_ in lv_adt['variants']} if lv_adt else {}
        nlv = 0
        for i, a in enumerate(lm['arms']):
            ps = [p_ for p_ in pat_paths(a['pat']) if p_.startswith('core::Lvalue::')]
            if not ps:
                continue
            v = ps[0].rsplit('::', 1)[-1]
            regn = arm_region(F, lb, lm, i)
            cls_ = closure_closure(F, lb, regn)
            cl_ff = any(is_ff(c.target) for cl in cls_ for c in F.body(cl).calls)
            for bb, s_ in lb.aggregates(regn):
                if s_[2][2] != 'core::Lvalue' or s_[2][4] != v:
                    continue
                for idx, f in enumerate(lv_fields.get(v, [])):
                    needs = any(m_ in ('adt:core::LocExpr', 'adt:core::Lvalue', 'adt:core::IndexOrSlice') for m_ in f['mentions'])
                    if not needs or idx >= len(s_[2][5]):
                        continue
                    nlv += 1
                    og = origins(lb, s_[2][5][idx], passthru=('branch', 'new', 'from_output', 'into', 'from'))
                    bad = [str(o[:2]) for o in og if not ((o[0] == 'call' and is_ff(o[1])) or (o[0] == 'call' and o[1].rsplit('::', 1)[-1] == 'collect' and cl_ff))]
                    if og and not bad:
                        rep.ok('R17.3', 'Lvalue::%s field %d' % (v, idx), 'from the freeze family')
                    else:
                        rep.viol('R17.3', 'child-lvalue|%s|field%d' % (v, idx), 'Lvalue::%s is rebuilt with field %d (%s) taken from %s instead of a frozen copy: a free variable inside a pattern (e.g. a type annotation) is resolved at use time, not at freeze time' % (v, idx, f['ty'][:50], bad), lb.loc(bb))
        rep.floor('R17.3', 'sub-expression fields of patterns', nlv, 12)
    else:
        rep.error('R17.2', 'freeze_lvalue missing')
    # which names a pattern binds: alternatives and conjunctions contribute the UNION of their names
    ci = 'core::Lvalue::collect_identifiers'
    if F.has_fn(ci):
        cb_ = F.body(ci)
        cm_ = find_match(F, ci, r'core::Lvalue', min_arms=8)
        for i, a in enumerate(cm_['arms']):
            ps = [p_.rsplit('::', 1)[-1] for p_ in pat_paths(a['pat']) if p_.startswith('core::Lvalue::')]
            if not ps or ps[0] not in ('Or', 'And'):
                continue
            regn = arm_region(F, cb_, cm_, i)
            names = [c.target.rsplit('::', 1)[-1] for c in cb_.calls_in(regn)]
            rec = names.count('collect_identifiers')
            if rec == 2 and ('extend' in names or 'union' in names) and not ({'intersection', 'retain', 'difference'} & set(names)):
                rep.ok('R17.1', 'collect_identifiers Lvalue::%s' % ps[0], 'union of both sides')
            else:
                rep.viol('R17.1', 'binders|%s|union' % ps[0], 'the names bound by an `%s` pattern are not the union of the names of its two sides (%s): a name bound by only one alternative is treated as free and frozen to the outer value, or freeze fails on a closed expression' % (ps[0].lower(), names), cb_.loc(min(regn)) if regn else None)
    else:
        rep.error('R17.1', 'collect_identifiers missing')

    # ---------------- R17.4
    rep.rule('R17.4', 'error exits of freeze / freeze_lvalue (unbound identifier, assignment to an unbound name, import, bare underscore) are '
             'constructed only when env.warn is false')
    for fn in (fz, fl_):
        if not F.has_fn(fn):
            continue
        b = F.body(fn)
        warn_locals = []
        for i in b.reach:
            for s in b.stmts(i):
                if s[0] == 'a' and s[2][0] == 'use' and s[2][1][0] in ('c', 'm') and any(isinstance(p, str) and p.endswith(':warn') for p in s[2][1][1][1:]):
                    warn_locals.append(s[1][0])
        sws = []
        for l in warn_locals:
            sws += bool_switches(b, l)
        # direct switches on the field
        for i in b.reach:
            t = b.term(i)
            if t[0] == 'switch' and t[1][0] in ('c', 'm') and any(isinstance(p, str) and p.endswith(':warn') for p in t[1][1][1:]):
                zero = [tb for vv, tb in t[2] if vv == '0']
                if zero:
                    sws.append((i, t[3], zero[0]))
        errs = [c for c in b.calls if re.search(r'NErr::(syntax_error|syntax_error_loc|name_error|type_error|value_error)$', c.target)]
        for c in errs:
            guarded = False
            for (sw, tt, ff) in sws:
                if c.bb in b.reachable_from(ff, avoid={sw}) and c.bb not in b.reachable_from(tt, avoid={sw}):
                    guarded = True
            if guarded:
                rep.ok('R17.4', '%s: %s' % (fn, c.target.rsplit('::', 1)[-1]), 'only when warn == false')
            else:
                rep.viol('R17.4', '%s|error-not-warn-guarded|%s' % (fn, c.target.rsplit('::', 1)[-1]), 'an error exit of %s is not confined to the non-warn path (or a new failure condition was added)' % fn, c.loc())
        rep.floor('R17.4', 'error exits in %s' % fn, len(errs), 1 if fn == fl_ else 2)

    # ---------------- R17.5
    rep.rule('R17.5', 'Call arm: the Neg fold happens only if builtin_name() == "-" and args.len() == 1 and the argument constant is a number; '
             'List arm: Frozen(list) only if every element has a constant_value (collect::<Option<Vec<_>>>)')
    regn = fregions.get('Call', set())
    negs = [c for c in fb.calls_in(regn) if c.callee.get('tr') == 'std::ops::Neg']
    if not negs:
        rep.note('no unary-minus fold in freeze (allowed)')
    else:
        neg = negs[0]
        bn = [c for c in fb.calls_in(regn) if c.target.rsplit('::', 1)[-1] == 'builtin_name']
        streq = [c for c in fb.calls_in(regn) if c.target.rsplit('::', 1)[-1] in ('eq', 'ne') and 'str' in str(c.callee.get('g'))]
        lens = [c for c in fb.calls_in(regn) if c.target.endswith('::len')]
        len_guard = False
        for bb in regn:
            for s in fb.stmts(bb):
                if s[0] == 'a' and s[2][0] == 'bin' and s[2][1] == 'Eq' and s[2][3][0] == 'k' and s[2][3][2].startswith('1_') and any(
                        o[0] == 'call' and o[1].endswith('::len') for o in origins(fb, s[2][2])):
                    for (sw, tt, ff) in bool_switches(fb, s[1][0]):
                        if neg.bb in fb.reachable_from(tt, avoid={sw}) and neg.bb not in fb.reachable_from(ff, avoid={sw}):
                            len_guard = True
        name_guard = False
        for c in streq:
            lit = any(('"-"' in str(a)) for a in c.args) or any(r[0] == 'const' and '"-"' in r[1] for a in c.args for r in fb.roots(a))
            if lit and only_when(fb, c, [neg.bb], want=c.target.endswith('::eq'))[0]:
                name_guard = True
        cv = [c for c in fb.calls_in(regn) if c.target.rsplit('::', 1)[-1] == 'constant_value']
        num = any(o[0] == 'payload' and 'Num' in o[3] for o in origins(fb, neg.args[0]))
        if len_guard and name_guard and len(cv) >= 2 and num:
            rep.ok('R17.5', 'unary minus fold', 'builtin "-" && args.len() == 1 && constant Num')
        else:
            rep.viol('R17.5', fz + '|Call|neg-fold-guard', 'the negative-literal fold is under-guarded (name test %s, arity test %s, constant tests %d, numeric payload %s): binary `-(c, x)` would be folded to -c' % (name_guard, len_guard, len(cv), num), neg.loc())
    regn = fregions.get('List', set())
    coll = [c for c in fb.calls_in(regn) if c.target.rsplit('::', 1)[-1] == 'collect' and 'Option<' in c.da]
    if coll:
        rep.ok('R17.5', 'list fold', 'collect::<Option<Vec<Obj>>> over constant_value (all or nothing)')
    elif any(s[2][4] == 'Frozen' for _bb, s in fb.aggregates(regn) if s[2][2] == 'core::Expr'):
        rep.viol('R17.5', fz + '|List|fold-guard', 'list literals are folded without requiring every element to be constant', fb.loc(min(regn)))

    # ---------------- R17.6
    rep.rule('R17.6', 'Expr::Freeze in evaluate builds FreezeEnv { bound: empty, env: current env, warn: false }, calls freeze and evaluates '
             'the result in the current env; Expr::Frozen returns a clone of its value')
    er = set()
    for i in earms.get('Freeze', []):
        er |= arm_region(F, eb, me, i)
    fcalls = [c for c in eb.calls_in(er) if c.target == fz]
    evs = [c for c in eb.calls_in(er) if c.target == evaluate]
    fenv = [(bb, s) for bb, s in eb.aggregates(er) if s[2][2] == 'core::FreezeEnv']
    ctor_call = None
    if fcalls and evs and not fenv:
        # FreezeEnv built by a constructor function: read the literal inside it and map its parameters back to the call site
        for c in eb.calls_in(er):
            if F.has_fn(c.target) and F.fns[c.target].get('output') == 'core::FreezeEnv':
                cb_ = F.body(c.target)
                lit = [(bb, s_) for bb, s_ in cb_.aggregates() if s_[2][2] == 'core::FreezeEnv']
                if lit:
                    ctor_call = (c, cb_, lit[0][1])
    if fcalls and evs and ctor_call:
        c, cb_, s_ = ctor_call
        adt = F.adts.get('core::FreezeEnv')
        names = [f['name'] for f in adt['variants'][0]['fields']]
        ops = dict(zip(names, s_[2][5]))

        def param_index(op):
            og = origins(cb_, op, passthru=('clone',))
            return og, {o[1] for o in og if o[0] == 'param'}
        w_og, w_par = param_index(ops.get('warn'))
        e_og, e_par = param_index(ops.get('env'))
        bnd = origins(cb_, ops.get('bound')) if ops.get('bound') else set()
        okb = bool(bnd) and all(o[0] == 'call' and o[1].endswith('::new') for o in bnd)
        # at the call site: which argument is the bool false, which is evaluate's env
        args_og = [origins(eb, a_) for a_ in c.args]
        env_args = [i for i, og in enumerate(args_og) if og and all(o[0] == 'param' and o[1] == 'env' for o in og)]
        false_args = [i for i, a_ in enumerate(c.args) if a_[0] == 'k' and a_[2] == 'false']
        oke = bool(e_par) and all(o[0] == 'param' for o in e_og) and bool(env_args)
        okw = (bool(w_par) and all(o[0] == 'param' for o in w_og) and bool(false_args)) or any(o[0] == 'const' and o[1] == 'false' for o in w_og)
        ev_env = all(any(r[0] == 'param' and r[2] == 'env' for r in eb.roots(c2.args[0])) for c2 in evs)
        if okw and oke and okb and ev_env and any(eb.dominates(f.bb, c2.bb) for f in fcalls for c2 in evs):
            rep.ok('R17.6', 'Expr::Freeze', 'FreezeEnv built by %s(env, false): bound new, env clone(env), warn false; evaluate(env, frozen)' % c.target.rsplit('::', 1)[-1])
        else:
            rep.viol('R17.6', evaluate + '|Freeze', 'Expr::Freeze no longer freezes against the current environment with warn = false and an empty bound set (constructor %s: warn %s, env %s, bound %s)' % (c.target, okw, oke, okb), fcalls[0].loc())
    elif fcalls and evs and fenv:
        adt = F.adts.get('core::FreezeEnv')
        names = [f['name'] for f in adt['variants'][0]['fields']]
        s = fenv[0][1]
        ops = dict(zip(names, s[2][5]))
        w = ops.get('warn')
        e_ = origins(eb, ops.get('env'), passthru=('clone',)) if ops.get('env') else set()
        bnd = origins(eb, ops.get('bound')) if ops.get('bound') else set()
        okw = w is not None and w[0] == 'k' and w[2] == 'false'
        oke = bool(e_) and all(o[0] == 'param' and o[1] == 'env' for o in e_)
        okb = bool(bnd) and all(o[0] == 'call' and o[1].endswith('::new') for o in bnd)
        ev_env = all(any(r[0] == 'param' and r[2] == 'env' for r in eb.roots(c.args[0])) for c in evs)
        if okw and oke and okb and ev_env and any(eb.dominates(f.bb, c.bb) for f in fcalls for c in evs):
            rep.ok('R17.6', 'Expr::Freeze', 'FreezeEnv{bound: new, env: clone(env), warn: false}; evaluate(env, frozen)')
        else:
            rep.viol('R17.6', evaluate + '|Freeze', 'Expr::Freeze no longer freezes against the current environment with warn = false and an empty bound set (warn %s, env %s, bound %s)' % (okw, oke, okb), fcalls[0].loc())
    else:
        rep.viol('R17.6', evaluate + '|Freeze|shape', 'Expr::Freeze arm does not call freeze and evaluate', None)
    # ---------------- R17.7
    rep.rule('R17.7', 'the freeze wrappers are shape preserving: box_freeze, rc_freeze, opt_*_freeze, vec_box_freeze*, box_freeze_underscore_ok and '
             'box_freeze_lvalue hand their own argument (or the element / Some-payload of it) to the freeze family, never a sub-expression '
             'taken out of an Expr / Lvalue node - a wrapper that recurses into the child of a node returns the child in place of the node')
    n7 = 0
    for w in sorted(F.fns):
        if not (w.startswith('core::') and w.rsplit('::', 1)[-1] in FREEZE_FAMILY and w.rsplit('::', 1)[-1] not in ('freeze', 'freeze_lvalue', 'freeze_ios')):
            continue
        bodies = [F.body(w)] + [F.body(c) for c in F.closures_of(w)]
        for b_ in bodies:
            for c in b_.calls:
                if not is_ff(c.target) or len(c.args) < 2:
                    continue
                n7 += 1
                og = origins(b_, c.args[1])
                bad = [o for o in og if o[0] == 'payload' and re.search(r'core::(Expr|Lvalue|LocExpr|IndexOrSlice)', str(o[2])) and o[1] not in ('Some',)]
                if bad:
                    rep.viol('R17.7', '%s|%s|sub-expression' % (w, c.target.rsplit('::', 1)[-1]), '%s passes the child of a %s node to %s and returns the result in place of the node: the node itself (e.g. the splat marker) disappears from the frozen program' % (w, bad[0][1], c.target.rsplit('::', 1)[-1]), c.loc())
                else:
                    rep.ok('R17.7', '%s -> %s' % (w.rsplit('::', 1)[-1], c.target.rsplit('::', 1)[-1]), 'argument is the wrapper\'s own parameter / element')
    rep.floor('R17.7', 'wrapper calls into the freeze family', n7, 8)
    # wrappers hand back what the freeze family produced, and do no binding of their own
    for w in sorted(F.fns):
        nm_ = w.rsplit('::', 1)[-1]
        if not (w.startswith('core::') and nm_ in FREEZE_FAMILY and nm_ not in ('freeze', 'freeze_lvalue', 'freeze_ios')):
            continue
        wb_ = F.body(w)
        binders = [c for b_ in family_bodies(F, w, depth=0) for c in b_.calls if c.target.rsplit('::', 1)[-1] in ('bind', 'collect_identifiers')]
        if binders:
            rep.viol('R17.7', '%s|binds' % w, '%s binds names itself (%s): names declared later in a statement list become bound before the statements that precede the declaration are frozen, so an earlier read of an outer variable of that name is left late-bound' % (w, binders[0].target.rsplit('::', 1)[-1]), binders[0].loc())
        oks_ = [(bb, s_) for bb, s_ in wb_.aggregates() if s_[1] == [0] and s_[2][2] == 'std::result::Result' and s_[2][4] == 'Ok' and s_[2][5]]
        for bb, s_ in oks_:
            og = origins(wb_, s_[2][5][0], passthru=('new', 'from', 'into', 'branch', 'from_output'))
            if any(o[0] == 'agg' and o[2] == 'Some' for o in og):
                # look inside Some(..): the payloads of the Option::Some values built in this wrapper
                og = {o for o in og if not (o[0] == 'agg' and o[2] == 'Some')}
                for bb2, s2 in wb_.aggregates():
                    if s2[2][2] == 'std::option::Option' and s2[2][4] == 'Some' and s2[2][5]:
                        og |= origins(wb_, s2[2][5][0], passthru=('new', 'from', 'into', 'branch', 'from_output'))
            frozen = [o for o in og if o[0] == 'call' and (is_ff(o[1]) or o[1].rsplit('::', 1)[-1] in ('collect', 'transpose', 'map'))]
            raw = [o for o in og if o[0] in ('param', 'payload') or (o[0] == 'call' and o[1].endswith('Clone>::clone'))]
            consts = [o for o in og if o[0] == 'agg']
            if raw and not frozen:
                rep.viol('R17.7', '%s|returns-unfrozen' % w, '%s returns its argument (or a clone of it) instead of the frozen copy: free variables inside it are resolved when the code runs, not when it is frozen' % w, wb_.loc(bb))
            elif frozen or consts:
                rep.ok('R17.7', '%s result' % nm_, 'the frozen value (or None / the underscore node)')
    # ---------------- R17.9
    rep.rule('R17.9', 'a bare `_` is accepted only where evaluation can turn it into a section: the underscore-tolerant wrappers are called from the '
             'Index, Update, Chain, Call and List arms of freeze, from freeze_ios (index position) and from each other - not from the generic optional / '
             'boxed child wrappers, which would let `if (c) 1 else _`, `return _`, `{: _}` pass freeze and fail (or misbehave) only when run')
    ALLOWED_ARMS = {'Index', 'Update', 'Chain', 'Call', 'List'}
    n9 = 0
    bad9 = []
    for p_ in sorted(F.bodies_raw):
        if '::promoted' in p_:
            continue
        b_ = F.body(p_)
        for c in b_.calls:
            if not c.target.endswith('_underscore_ok'):
                continue
            n9 += 1
            owner = p_
            while owner in F.closure_parent:
                owner = F.closure_parent[owner]
            if owner == fz:
                arm_names = set()
                if p_ == fz:
                    for v, regn in fregions.items():
                        if c.bb in regn:
                            arm_names.add(v)
                else:
                    # a closure created inside an arm of freeze
                    for v, regn in fregions.items():
                        if any(s_[2][1] == 'closure' and (s_[2][2] == p_ or F.closure_parent.get(p_) == s_[2][2]) for bb, s_ in fb.aggregates(regn)):
                            arm_names.add(v)
                if arm_names and arm_names <= ALLOWED_ARMS:
                    continue
                if not arm_names:
                    continue        # could not attribute the closure: not decided
                bad9.append((owner + '@' + ','.join(sorted(arm_names)), c))
            elif owner.rsplit('::', 1)[-1] in ('freeze_ios', 'vec_box_freeze_underscore_ok', 'box_freeze_underscore_ok'):
                continue
            else:
                bad9.append((owner, c))
    if bad9:
        rep.viol('R17.9', '%s|underscore-tolerant' % bad9[0][0], '%s freezes a child through the underscore-tolerant wrapper: a bare `_` in that position (an else branch, a return value, a dict default ...) no longer fails at freeze time' % bad9[0][0], bad9[0][1].loc())
    else:
        rep.ok('R17.9', 'underscore-tolerant wrappers', '%d call site(s), all in section positions' % n9)
    rep.floor('R17.9', 'calls of the underscore-tolerant wrappers', n9, 6)
    # ---------------- R17.8
    rep.rule('R17.8', 'the constant fold of unary minus computes what evaluation computes: freeze folds `-c` with Neg::neg on the number, and the '
             'one-argument path of the `-` builtin (Minus::run1, and the one-argument arm of Minus::run) negates with the same operation - not '
             '0 - x, which differs on -0.0')
    def neg_reach(fn):
        if not fn or not F.has_fn(fn):
            return None
        bodies = [F.body(fn)] + [F.body(c_) for c_ in F.closures_of(fn)]
        negs = [c for b_ in bodies for c in b_.calls if c.callee.get('tr') == 'std::ops::Neg' and 'NNum' in c.target]
        return negs
    fold_neg = [c for c in fb.calls if c.callee.get('tr') == 'std::ops::Neg' and 'NNum' in c.target]
    if not fold_neg:
        # the fold may live in a helper extracted from freeze: look one level into its non-freeze-family local callees
        for c0 in fb.calls:
            if F.has_fn(c0.target) and c0.target.startswith('core::') and not is_ff(c0.target):
                fold_neg += [c for c in F.body(c0.target).calls if c.callee.get('tr') == 'std::ops::Neg' and 'NNum' in c.target]
    mimp = [imp for imp in F.impls_of('core::Builtin') if imp['self_ty'] == 'Minus']
    if not mimp:
        rep.error('R17.8', 'impl Builtin for Minus missing')
    else:
        r1 = F.impl_fn(mimp[0], 'run1')
        rr = F.impl_fn(mimp[0], 'run')
        n1 = neg_reach(r1)
        nr = neg_reach(rr)
        delegates = rr and r1 and any(c.target == r1 for c in F.body(rr).calls)
        if fold_neg and n1 and (nr or delegates):
            rep.ok('R17.8', 'unary minus', 'fold and evaluation both use <NNum as Neg>::neg')
        elif not fold_neg:
            rep.error('R17.8', 'freeze: the negation of the folded constant was not found')
        else:
            rep.viol('R17.8', 'Minus|unary|not-neg', 'the one-argument path of the `-` builtin no longer negates with Neg::neg (run1: %s, run: %s) while freeze folds `-c` by true negation: `x / (-0.0)` gives -inf frozen and inf unfrozen' % (bool(n1), bool(nr) or delegates), F.body(r1 or rr).loc(0))
    rep.undecided += ['the frozen program computes the same values as the unfrozen one']
    return META
