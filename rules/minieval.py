"""A small evaluator for straight-line / branching MIR over a finite abstract input domain.

It is *not* symbolic execution handed to a solver: the function under analysis is run, block by block, on every element of
a finite set of abstract inputs (enum discriminants and an abstract ordering between opaque scalars), so that the function's
complete decision table can be read off whatever shape the source has (nested match, tuple match, if-chains, comparisons).
Anything outside the supported fragment raises Unsupported and the caller fails closed.

values:
  ('adt', type_hint, variant_index, [fields])     ('tup', [fields])      ('int', n)      ('bool', b)
  ('sym', name)        opaque scalar; only comparisons between syms are defined, through `order`
  ('ref', cell)        reference to a Cell
Cells hold a value and can be projected (fields, downcasts are transparent: an adt keeps its own variant).
"""
import re


class Unsupported(Exception):
    pass


class Cell:
    __slots__ = ('v',)

    def __init__(self, v=None):
        self.v = v


ORDERING_DISCR = {'Less': 255, 'Equal': 0, 'Greater': 1}


def ordering_value(name):
    return ('adt', 'Ordering', ORDERING_DISCR[name], [])


def option_some(v):
    return ('adt', 'Option', 1, [v])


OPTION_NONE = ('adt', 'Option', 0, [])


class Evaluator:
    def __init__(self, body, order, max_steps=2000):
        """order(a_name, b_name) -> 'Less' | 'Equal' | 'Greater' | None (unordered)"""
        self.b = body
        self.order = order
        self.max_steps = max_steps
        self.cells = {}
        self.nd = []          # pre-chosen outcomes for non-deterministic library calls (consumed in order)
        self.nd_asked = 0     # how many such choices the run asked for

    # ---- places
    def cell(self, local):
        c = self.cells.get(local)
        if c is None:
            c = self.cells[local] = Cell()
        return c

    def read_place(self, place):
        c = self.cell(place[0])
        v = c.v
        for pr in place[1:]:
            if v is None:
                raise Unsupported('read of an unset place %s' % (place,))
            if pr == '*':
                if v[0] != 'ref':
                    raise Unsupported('deref of non-reference')
                v = v[1].v if isinstance(v[1], Cell) else v[1]
            elif isinstance(pr, str) and pr.startswith('f'):
                idx = int(pr[1:].split(':')[0])
                if v[0] == 'adt':
                    v = v[3][idx]
                elif v[0] == 'tup':
                    v = v[1][idx]
                else:
                    raise Unsupported('field of %s' % v[0])
            elif isinstance(pr, str) and pr.startswith('v'):
                pass            # downcast: the adt value already carries its variant
            else:
                raise Unsupported('projection %s' % (pr,))
        if v is None:
            raise Unsupported('read of an unset place %s' % (place,))
        return v

    def write_place(self, place, val):
        if len(place) == 1:
            self.cell(place[0]).v = val
            return
        # write through projections: rebuild (values are immutable tuples/lists; we mutate lists in place)
        c = self.cell(place[0])
        v = c.v
        holder = None
        for pr in place[1:-1]:
            if pr == '*':
                cc = v[1]
                v = cc.v
                holder = cc
            elif pr.startswith('f'):
                idx = int(pr[1:].split(':')[0])
                v = v[3][idx] if v[0] == 'adt' else v[1][idx]
            elif pr.startswith('v'):
                pass
            else:
                raise Unsupported('projection %s' % (pr,))
        last = place[-1]
        if last == '*':
            v[1].v = val
        elif last.startswith('f'):
            idx = int(last[1:].split(':')[0])
            (v[3] if v[0] == 'adt' else v[1])[idx] = val
        else:
            raise Unsupported('write through %s' % last)

    def ref_place(self, place):
        """a reference to a place: a Cell aliasing it when the place is a whole local or a deref chain, else a snapshot cell
        (sufficient for read-only analysis of functions that do not mutate through the reference)"""
        if len(place) == 1:
            return ('ref', self.cell(place[0]))
        if all(p == '*' for p in place[1:]):
            v = self.cell(place[0]).v
            for _ in place[1:-1]:
                v = v[1].v
            return ('ref', v[1]) if v and v[0] == 'ref' else ('ref', Cell(self.read_place(place)))
        return ('ref', Cell(self.read_place(place)))

    # ---- operands
    def operand(self, op):
        if op[0] in ('c', 'm'):
            return self.read_place(op[1])
        if op[0] == 'k':
            t = op[2]
            if t in ('true', 'const true'):
                return ('bool', True)
            if t in ('false', 'const false'):
                return ('bool', False)
            m = re.match(r'^(?:const )?(-?\d+)_?[iu]?\w*$', t)
            if m:
                return ('int', int(m.group(1)))
            raise Unsupported('constant %s' % t)
        raise Unsupported('operand %s' % (op[0],))

    def compare(self, op, x, y):
        if x[0] == 'sym' and y[0] == 'sym':
            o = self.order(x[1], y[1])
            table = {'Lt': o == 'Less', 'Le': o in ('Less', 'Equal'), 'Gt': o == 'Greater', 'Ge': o in ('Greater', 'Equal'),
                     'Eq': o == 'Equal', 'Ne': o != 'Equal'}
            return ('bool', table[op])
        if x[0] in ('int', 'bool') and y[0] == x[0]:
            a, b_ = x[1], y[1]
            return ('bool', {'Lt': a < b_, 'Le': a <= b_, 'Gt': a > b_, 'Ge': a >= b_, 'Eq': a == b_, 'Ne': a != b_}[op])
        raise Unsupported('comparison of %s and %s' % (x[0], y[0]))

    def deref_all(self, v):
        while v[0] == 'ref':
            v = v[1].v if isinstance(v[1], Cell) else v[1]
        return v

    def call(self, target, args):
        last = target.rsplit('::', 1)[-1]
        vals = [self.deref_all(self.operand(a)) for a in args]
        if last == 'partial_cmp' and len(vals) == 2 and vals[0][0] == 'sym':
            o = self.order(vals[0][1], vals[1][1])
            return OPTION_NONE if o is None else option_some(ordering_value(o))
        if last == 'total_cmp' and len(vals) == 2 and vals[0][0] == 'sym':
            # f64::total_cmp is not a function of the IEEE ordering: -0.0 < 0.0 and NaNs are ordered by their bits.
            # Less / Greater are determined; Equal and unordered may come out as anything: the caller enumerates.
            o = self.order(vals[0][1], vals[1][1])
            if o in ('Less', 'Greater'):
                return ordering_value(o)
            k = self.nd_asked
            self.nd_asked += 1
            pick = self.nd[k] if k < len(self.nd) else 'Equal'
            return ordering_value(pick)
        if last in ('lt', 'le', 'gt', 'ge', 'eq', 'ne') and len(vals) == 2:
            return self.compare(last.capitalize(), vals[0], vals[1])
        if last in ('is_gt', 'is_lt', 'is_eq', 'is_ge', 'is_le', 'is_ne') and vals and vals[0][0] == 'adt' and vals[0][1] == 'Ordering':
            d = vals[0][2]
            return ('bool', {'is_gt': d == 1, 'is_lt': d == 255, 'is_eq': d == 0, 'is_ge': d in (0, 1), 'is_le': d in (0, 255), 'is_ne': d != 0}[last])
        if last in ('is_some', 'is_none') and vals and vals[0][0] == 'adt':
            return ('bool', (vals[0][2] == 1) == (last == 'is_some'))
        if last == 'unwrap_or' and len(vals) == 2 and vals[0][0] == 'adt':
            return vals[0][3][0] if vals[0][2] == 1 else vals[1]
        if last in ('clone', 'deref', 'borrow', 'as_ref', 'as_deref', 'into', 'from', 'as_mut') and len(vals) == 1:
            return vals[0]
        if last == 'is_nan' and vals and vals[0][0] == 'sym':
            return ('bool', self.order(vals[0][1], vals[0][1]) is None)
        if last == 'branch' and len(vals) == 1 and vals[0][0] == 'adt' and vals[0][1] == 'Option':
            # <Option<T> as Try>::branch: Some(v) -> Continue(v), None -> Break(None)
            return ('adt', 'ControlFlow', 0, [vals[0][3][0]]) if vals[0][2] == 1 else ('adt', 'ControlFlow', 1, [OPTION_NONE])
        if last == 'from_residual' and len(vals) == 1:
            return OPTION_NONE if (vals[0][0] == 'adt' and vals[0][1] == 'Option') else vals[0]
        # anything else: an opaque result; fine as long as no branch depends on it
        return ('opaque', target)

    def rvalue(self, rv):
        k = rv[0]
        if k == 'use':
            return self.operand(rv[1])
        if k == 'ref':
            return self.ref_place(rv[2])
        if k == 'discr':
            v = self.deref_all(self.read_place(rv[1]))
            if v[0] != 'adt':
                raise Unsupported('discriminant of %s' % v[0])
            return ('int', v[2])
        if k == 'bin':
            x, y = self.operand(rv[2]), self.operand(rv[3])
            x, y = self.deref_all(x), self.deref_all(y)
            if rv[1] in ('Lt', 'Le', 'Gt', 'Ge', 'Eq', 'Ne'):
                return self.compare(rv[1], x, y)
            if rv[1] in ('BitAnd', 'BitOr', 'BitXor') and x[0] == 'bool' and y[0] == 'bool':
                return ('bool', {'BitAnd': x[1] and y[1], 'BitOr': x[1] or y[1], 'BitXor': x[1] != y[1]}[rv[1]])
            raise Unsupported('binary op %s' % rv[1])
        if k == 'un':
            x = self.deref_all(self.operand(rv[2]))
            if rv[1] == 'Not' and x[0] == 'bool':
                return ('bool', not x[1])
            raise Unsupported('unary op %s' % rv[1])
        if k == 'agg':
            fields = [self.operand(o) for o in rv[5]] if len(rv) > 5 else []
            if rv[1] == 'tuple':
                return ('tup', fields)
            if rv[1] == 'adt':
                return ('adt', str(rv[2]).rsplit('::', 1)[-1], rv[3], fields)
            raise Unsupported('aggregate %s' % rv[1])
        if k == 'cast':
            return self.operand(rv[2])
        raise Unsupported('rvalue %s' % k)

    def run(self, args):
        """args: values of the parameters (locals 1..n). Returns the value of local 0 at return."""
        for i, a in enumerate(args):
            self.cell(i + 1).v = a
        bb = 0
        for _ in range(self.max_steps):
            blk = self.b.blocks[bb]
            for s in blk['s']:
                if s[0] == 'a':
                    self.write_place(s[1], self.rvalue(s[2]))
            t = blk['t']
            k = t[0]
            if k == 'ret':
                return self.cell(0).v
            if k == 'goto':
                bb = t[1]
            elif k == 'switch':
                v = self.deref_all(self.operand(t[1]))
                if v[0] == 'bool':
                    n = 1 if v[1] else 0
                elif v[0] == 'int':
                    n = v[1]
                else:
                    raise Unsupported('switch on %s' % v[0])
                nxt = None
                for vv, tb in t[2]:
                    if int(vv) == n or (int(vv) - 256 == n) or (n - 256 == int(vv)):
                        nxt = tb
                bb = nxt if nxt is not None else t[3]
            elif k == 'call':
                callee = t[1]
                target = callee.get('r') or callee.get('d') or ''
                self.write_place(t[3], self.call(target, t[2]))
                if t[4] is None:
                    raise Unsupported('diverging call')
                bb = t[4]
            elif k == 'drop':
                bb = t[2] if len(t) > 2 and isinstance(t[2], int) else self.b.succ[bb][0]
            elif k == 'assert':
                bb = self.b.succ[bb][0]
            else:
                raise Unsupported('terminator %s' % k)
        raise Unsupported('step limit')
