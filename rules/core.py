"""Fact base access + generic analyses (CFG, dominators, call graph, provenance, arm regions).

Everything here works on the JSON fact file written by /verif/nlint from rustc's own HIR/MIR of
/repo's current working tree. Nothing here matches source text or line numbers; spans are used only
to attribute MIR blocks to HIR match arms (containment through the macro-expansion chain) and to
print file:line in reports.
"""
import json
import os
import pickle
import re
import sys
from collections import defaultdict


class CheckError(Exception):
    """An anchor is missing or a rule cannot be evaluated: the check fails closed."""


# --------------------------------------------------------------------------------------------
# facts


def _or_alternatives(pat):
    """top-level alternatives of a pattern (or-patterns flattened, also under a reference pattern)"""
    k = pat.get('k')
    if k == 'or':
        out = []
        for x in pat['s']:
            out += _or_alternatives(x)
        return out
    if k in ('ref', 'deref') and isinstance(pat.get('s'), dict):
        inner = _or_alternatives(pat['s'])
        if len(inner) > 1:
            return [dict(pat, s=x) for x in inner]
    return [pat]


class Facts:
    def __init__(self, path):
        pk = path + '.pickle'
        if os.path.exists(pk) and os.path.getmtime(pk) >= os.path.getmtime(path):
            with open(pk, 'rb') as f:
                self.raw = pickle.load(f)
        else:
            with open(path) as f:
                self.raw = json.load(f)
            try:
                tmp = pk + '.%d' % os.getpid()
                with open(tmp, 'wb') as f:
                    pickle.dump(self.raw, f, protocol=pickle.HIGHEST_PROTOCOL)
                os.replace(tmp, pk)
            except OSError:
                pass
        r = self.raw
        self.files = r['files']
        self.spans = r['spans']
        self.fns = {f['path']: f for f in r['fns']}
        self.bodies_raw = {b['fn']: b for b in r['bodies']}
        self._bodies = {}
        self.matches = defaultdict(list)
        for m in r['matches']:
            # an arm `A | B => body` is presented to the rules as two arms with the same body: rules reason per
            # alternative, so merging / splitting arms with identical bodies does not change what they see
            if not m.get('_expanded'):
                arms = []
                for oi, a in enumerate(m['arms']):
                    alts = _or_alternatives(a['pat'])
                    if len(alts) > 1:
                        for alt in alts:
                            a2 = dict(a)
                            a2['pat'] = alt
                            a2['or_of'] = oi
                            arms.append(a2)
                    else:
                        arms.append(a)
                m['arms_src'] = m['arms']
                m['arms'] = arms
                m['_expanded'] = True
            self.matches[m['fn']].append(m)
        self.structs = r['structs']
        self.closures = r['closures']
        self.adts = {a['path']: a for a in r['adts']}
        self.impls = r['impls']
        self.traits = {t['path']: t for t in r['traits']}
        self.unsafe = r['unsafe']
        self.closure_parent = {c['closure']: c['parent'] for c in r['closures']}
        self._callers = None

    # ---- spans
    def loc(self, si):
        """file:line of a span index, preferring the outermost call site in the crate."""
        s = self.spans[si]
        cur = s
        while cur[6] >= 0 and not self.files[cur[0]].startswith('src/'):
            cur = self.spans[cur[6]]
        return '%s:%d' % (self.files[cur[0]], cur[1])

    def span_chain(self, si):
        out = []
        while si >= 0:
            s = self.spans[si]
            out.append(s)
            si = s[6]
        return out

    def span_in(self, inner_i, outer_i):
        """inner (through its expansion chain) lies inside outer, in the same syntax context."""
        o = self.spans[outer_i]
        for s in self.span_chain(inner_i):
            if s[0] == o[0] and s[5] == o[5]:
                if (s[1], s[2]) >= (o[1], o[2]) and (s[3], s[4]) <= (o[3], o[4]):
                    return True
        return False

    def is_local_span(self, si):
        return self.files[self.spans[si][0]].startswith('src/')

    def root_is_foreign_macro(self, si):
        """the span comes (at its innermost level) from a macro defined outside the crate"""
        s = self.spans[si]
        return s[5] != 0 and not self.files[s[0]].startswith('src/')

    # ---- functions / bodies
    def body(self, path):
        b = self._bodies.get(path)
        if b is None:
            raw = self.bodies_raw.get(path)
            if raw is None:
                raise CheckError('anchor missing: no MIR body for %s' % path)
            b = Body(self, raw)
            self._bodies[path] = b
        return b

    def has_fn(self, path):
        return path in self.bodies_raw

    def all_bodies(self):
        for p in self.bodies_raw:
            yield self.body(p)

    def anchor(self, path, inputs=None, output=None, name=None):
        """Resolve a function by def-path; if it has been renamed/moved, by unique signature."""
        if path in self.fns:
            return path
        if inputs is not None:
            c = [p for p, f in self.fns.items()
                 if f.get('inputs') == inputs and (output is None or f.get('output') == output)
                 and (name is None or p.endswith('::' + name))]
            if len(c) == 1:
                return c[0]
        raise CheckError('anchor missing: function %s' % path)

    def closures_of(self, path):
        """closures defined (transitively) inside fn `path`"""
        out = []
        for c, p in self.closure_parent.items():
            q = p
            while q is not None:
                if q == path:
                    out.append(c)
                    break
                q = self.closure_parent.get(q)
        return sorted(out)

    def fns_matching(self, regex):
        r = re.compile(regex)
        return sorted(p for p in self.fns if r.search(p))

    def impls_of(self, trait):
        return [i for i in self.impls if i['trait'] == trait]

    def impl_fn(self, impl, name):
        for n, p, _k in impl['items']:
            if n == name:
                return p
        return None

    # ---- call graph
    def callers(self):
        if self._callers is None:
            cs = defaultdict(set)
            for b in self.all_bodies():
                for c in b.calls:
                    cs[c.target].add(b.path)
            self._callers = cs
        return self._callers


# --------------------------------------------------------------------------------------------
# MIR body


class Call:
    __slots__ = ('bb', 'callee', 'args', 'dest', 'next', 'unwind', 'fn_span', 'span', 'body')

    def __init__(self, body, bb, t, span):
        self.body = body
        self.bb = bb
        self.callee = t[1]
        self.args = t[2]
        self.dest = t[3]
        self.next = t[4]
        self.unwind = t[5]
        self.fn_span = t[6]
        self.span = span

    @property
    def d(self):
        return self.callee.get('d', '')

    @property
    def r(self):
        return self.callee.get('r', '')

    @property
    def target(self):
        """best-known callee def-path: the resolved instance if any, else the syntactic callee"""
        r = self.callee.get('r')
        if r:
            return r
        return self.callee.get('d', '<indirect>')

    @property
    def da(self):
        return self.callee.get('da', '')

    @property
    def is_indirect(self):
        return 'p' in self.callee

    def names(self):
        return {self.callee.get('d', ''), self.callee.get('r', '')} - {''}

    def matches(self, *pats):
        """any of the callee names equals or ends with '::'+pat, or regex if pat starts with '~'"""
        for n in self.names():
            for p in pats:
                if p.startswith('~'):
                    if re.search(p[1:], n) or re.search(p[1:], self.da):
                        return True
                elif n == p or n.endswith('::' + p):
                    return True
        return False

    def loc(self):
        return self.body.F.loc(self.span)

    def __repr__(self):
        return '<call %s @bb%d %s>' % (self.target, self.bb, self.loc())


def promoted_aggs(F, text):
    """for a constant operand that names a promoted body, the aggregates built there"""
    out = []
    if '::promoted[' in text and text in F.bodies_raw:
        pb = F.body(text)
        for _bb, s in pb.aggregates():
            out.append((s[2][2], s[2][4], s[2][5]))
    return out


def promoted_consts(F, text):
    """plain constants (e.g. a string literal) assigned inside a promoted body"""
    out = []
    if '::promoted[' in text and text in F.bodies_raw:
        pb = F.body(text)
        for i in range(pb.n):
            for s in pb.stmts(i):
                if s[0] == 'a' and s[2][0] == 'use' and s[2][1][0] == 'k':
                    out.append(s[2][1][2])
    return out


def op_place(op):
    if op and op[0] in ('c', 'm'):
        return op[1]
    return None


def op_local(op):
    p = op_place(op)
    return p[0] if p else None


def op_const(op):
    if op and op[0] == 'k':
        return op[2]
    return None


class Body:
    def __init__(self, F, raw):
        self.F = F
        self.raw = raw
        self.path = raw['fn']
        self.blocks = raw['blocks']
        self.n = len(self.blocks)
        self.argc = raw['argc']
        self.locals = raw['locals']
        self.varnames = {}
        for name, place in raw['vars']:
            if len(place) == 1:
                self.varnames.setdefault(place[0], name)
        self.succ = [self._succ(i) for i in range(self.n)]
        self.pred = [[] for _ in range(self.n)]
        for i, ss in enumerate(self.succ):
            for s in ss:
                self.pred[s].append(i)
        self.calls = []
        for i, b in enumerate(self.blocks):
            t = b['t']
            if t[0] == 'call' and not b['cleanup']:
                self.calls.append(Call(self, i, t, b['sp']))
        self._dom = None
        self._pdom = None
        self._defs = None
        self.reach = self._reachable()

    def _succ(self, i):
        """normal-control-flow successors (unwind edges and cleanup blocks excluded)"""
        t = self.blocks[i]['t']
        k = t[0]
        if k == 'goto':
            return [t[1]]
        if k == 'switch':
            out = []
            for _v, b in t[2]:
                if b not in out:
                    out.append(b)
            if t[3] not in out:
                out.append(t[3])
            return out
        if k == 'drop':
            return [t[2]]
        if k == 'call':
            return [t[4]] if t[4] >= 0 else []
        if k == 'assert':
            return [t[5]]
        return []

    def _reachable(self):
        seen = {0}
        st = [0]
        while st:
            x = st.pop()
            for s in self.succ[x]:
                if s not in seen:
                    seen.add(s)
                    st.append(s)
        return seen

    def term(self, i):
        return self.blocks[i]['t']

    def stmts(self, i):
        return self.blocks[i]['s']

    def loc(self, bb):
        return self.F.loc(self.blocks[bb]['sp'])

    # ---- dominators (iterative, blocks are few)
    def dominators(self):
        if self._dom is None:
            self._dom = _dominators(self.n, [0], self.succ, self.pred, self.reach)
        return self._dom

    def postdominators(self):
        if self._pdom is None:
            exits = [i for i in self.reach if not self.succ[i]]
            self._pdom = _dominators(self.n, exits, self.pred, self.succ, self.reach, multi=True)
        return self._pdom

    def dominates(self, a, b):
        return a in self.dominators().get(b, set())

    def postdominates(self, a, b):
        return a in self.postdominators().get(b, set())

    def reachable_from(self, a, avoid=()):
        seen = set()
        st = [a]
        while st:
            x = st.pop()
            if x in seen or x in avoid:
                continue
            seen.add(x)
            st.extend(self.succ[x])
        return seen

    def on_cycle(self, a):
        for s in self.succ[a]:
            if a in self.reachable_from(s):
                return True
        return False

    def return_blocks(self):
        return [i for i in self.reach if self.term(i)[0] == 'ret']

    def every_path_passes(self, src, dst_set, through):
        """every path src -> any of dst_set passes through a block of `through`"""
        seen = set()
        st = [src]
        while st:
            x = st.pop()
            if x in seen:
                continue
            seen.add(x)
            if x in through:
                continue
            if x in dst_set:
                return False
            st.extend(self.succ[x])
        return True

    # ---- definitions / provenance
    def defs(self):
        """local -> list of (bb, idx, kind, payload); kind 'a' (assign rvalue) or 'call'"""
        if self._defs is None:
            d = defaultdict(list)
            for i, b in enumerate(self.blocks):
                if b['cleanup']:
                    continue
                for j, s in enumerate(b['s']):
                    if s[0] == 'a':
                        d[s[1][0]].append((i, j, 'a', s))
                t = b['t']
                if t[0] == 'call':
                    d[t[3][0]].append((i, -1, 'call', t))
            self._defs = d
        return self._defs

    def local_name(self, l):
        if l == 0:
            return '<ret>'
        n = self.varnames.get(l)
        if n:
            return n
        return '_%d' % l

    def roots(self, op, depth=0, seen=None, through_calls=()):
        """Backward def-use walk from an operand to its roots.

        Returns a set of tuples:
          ('param', index, name)        a function parameter (possibly projected)
          ('call', target, bb)          the result of a call (unless a pass-through call)
          ('const', text)
          ('agg', kind, path, variant)  an aggregate built here
          ('bin', op) / ('other', ..)
        Projections are dropped: "derived from" semantics.
        `through_calls`: callee patterns treated as identity on their first argument (clone,
        deref, borrow, into, from, as_ref ...) in addition to the built-in list.
        """
        if seen is None:
            seen = set()
        out = set()
        if op is None:
            return out
        if op[0] == 'k':
            self._const_root(op, out)
            return out
        if op[0] not in ('c', 'm'):
            out.add(('other', str(op)))
            return out
        self._roots_local(op[1][0], seen, out, through_calls, depth)
        return out

    def _const_root(self, op, out):
        pa = promoted_aggs(self.F, op[2])
        if pa:
            for (path, variant, _ops) in pa:
                out.add(('agg', 'adt', path, variant))
        else:
            pcs = promoted_consts(self.F, op[2])
            if pcs:
                for t in pcs:
                    out.add(('const', t))
            else:
                out.add(('const', op[2]))

    PASS = ('clone', 'deref', 'deref_mut', 'borrow', 'borrow_mut', 'as_ref', 'as_mut', 'into',
            'from', 'to_owned', 'as_slice', 'as_mut_slice', 'unwrap', 'expect', 'branch',
            'from_residual', 'into_iter', 'iter', 'as_deref', 'new', 'to_vec', 'as_str',
            'take', 'replace', 'cloned', 'copied', 'as_bytes', 'make_mut', 'get_mut', 'index',
            'index_mut', 'from_output', 'unwrap_or_clone', 'to_string')

    def _roots_local(self, l, seen, out, through_calls, depth):
        if l in seen or depth > 60:
            return
        seen.add(l)
        if 1 <= l <= self.argc:
            out.add(('param', l, self.varnames.get(l, '_%d' % l)))
            # parameters may also be reassigned; continue to look at defs
        ds = self.defs().get(l, [])
        if not ds and not (1 <= l <= self.argc):
            out.add(('undef', l))
        for (bb, j, kind, s) in ds:
            if kind == 'call':
                c = s[1]
                names = [c.get('d', ''), c.get('r', '')]
                last = [n.rsplit('::', 1)[-1] for n in names if n]
                passthru = any(x in self.PASS for x in last) or any(
                    re.search(p, n) for p in through_calls for n in names if n)
                if passthru and s[2]:
                    for a in s[2][:1]:
                        if a[0] == 'k':
                            self._const_root(a, out)
                        elif a[0] in ('c', 'm'):
                            self._roots_local(a[1][0], seen, out, through_calls, depth + 1)
                else:
                    tgt = c.get('r') or c.get('d') or '<indirect>'
                    out.add(('call', tgt, bb))
            else:
                rv = s[2]
                k = rv[0]
                if k == 'use':
                    self._op_roots(rv[1], seen, out, through_calls, depth)
                elif k in ('ref', 'rawptr', 'discr'):
                    pl = rv[-1]
                    self._roots_local(pl[0], seen, out, through_calls, depth + 1)
                elif k == 'cast':
                    self._op_roots(rv[2], seen, out, through_calls, depth)
                elif k == 'agg':
                    out.add(('agg', rv[1], rv[2], rv[4]))
                elif k == 'bin':
                    out.add(('bin', rv[1]))
                elif k == 'un':
                    self._op_roots(rv[2], seen, out, through_calls, depth)
                else:
                    out.add(('other', k))

    def _op_roots(self, op, seen, out, through_calls, depth):
        if op[0] == 'k':
            self._const_root(op, out)
        elif op[0] in ('c', 'm'):
            self._roots_local(op[1][0], seen, out, through_calls, depth + 1)

    def root_names(self, op, **kw):
        """compact textual form of roots()"""
        out = set()
        for r in self.roots(op, **kw):
            if r[0] == 'param':
                out.add('param:' + r[2])
            elif r[0] == 'call':
                out.add('call:' + r[1])
            elif r[0] == 'const':
                out.add('const:' + r[1])
            elif r[0] == 'agg':
                out.add('agg:%s%s' % (r[2], ('::' + r[3]) if r[3] else ''))
            else:
                out.add(r[0])
        return out

    # ---- regions
    def blocks_in_span(self, span_i):
        """blocks whose terminator span (or any statement span) lies inside span_i"""
        out = set()
        F = self.F
        for i in self.reach:
            b = self.blocks[i]
            if b['cleanup']:
                continue
            if F.span_in(b['sp'], span_i):
                out.add(i)
                continue
            for s in b['s']:
                if s[0] in ('a', 'sd') and F.span_in(s[-1], span_i):
                    out.add(i)
                    break
        return out

    def calls_in(self, blocks):
        return [c for c in self.calls if c.bb in blocks]

    def calls_to(self, *pats):
        return [c for c in self.calls if c.matches(*pats)]

    def aggregates(self, blocks=None):
        """yield (bb, stmt) for every Aggregate assignment"""
        for i in (sorted(blocks) if blocks is not None else range(self.n)):
            b = self.blocks[i]
            if b['cleanup'] or i not in self.reach:
                continue
            for s in b['s']:
                if s[0] == 'a' and s[2][0] == 'agg':
                    yield i, s

    def asserts(self):
        for i in sorted(self.reach):
            t = self.term(i)
            if t[0] == 'assert':
                yield i, t


def _dominators(n, entries, succ, pred, universe, multi=False):
    """classic iterative set-based dominators over `universe`; with several entries (post-dom)
    a virtual root is implied"""
    uni = set(universe)
    dom = {}
    ent = [e for e in entries if e in uni]
    for v in uni:
        dom[v] = set(uni)
    for e in ent:
        dom[e] = {e}
    changed = True
    order = sorted(uni)
    while changed:
        changed = False
        for v in order:
            if v in ent:
                continue
            ps = [p for p in pred[v] if p in uni]
            if not ps:
                new = {v}
            else:
                new = None
                for p in ps:
                    new = set(dom[p]) if new is None else (new & dom[p])
                new = set(new)
                new.add(v)
            if new != dom[v]:
                dom[v] = new
                changed = True
    return dom


# --------------------------------------------------------------------------------------------
# match arms


def pat_paths(p, acc=None):
    """all constructor/const paths in a pattern tree"""
    if acc is None:
        acc = []
    k = p.get('k')
    if k in ('ts', 'struct', 'path'):
        acc.append(p['p'])
    for key in ('s',):
        v = p.get(key)
        if isinstance(v, list):
            for x in v:
                pat_paths(x, acc)
        elif isinstance(v, dict):
            pat_paths(v, acc)
    if k == 'struct':
        for _n, x in p['f']:
            pat_paths(x, acc)
    if k == 'slice':
        for x in p['a'] + p['b']:
            pat_paths(x, acc)
    return acc


def pat_str(p):
    k = p.get('k')
    if k == 'wild':
        return '_'
    if k == 'bind':
        return p['n'] + ('@' + pat_str(p['s']) if 's' in p else '')
    if k == 'path':
        return short(p['p'])
    if k == 'lit':
        return p['v']
    if k == 'ts':
        subs = [pat_str(x) for x in p['s']]
        if p['dd'] >= 0:
            subs.insert(p['dd'], '..')
        return '%s(%s)' % (short(p['p']), ', '.join(subs))
    if k == 'struct':
        return '%s{%s}' % (short(p['p']), ', '.join('%s: %s' % (n, pat_str(x)) for n, x in p['f']))
    if k == 'tuple':
        subs = [pat_str(x) for x in p['s']]
        if p['dd'] >= 0:
            subs.insert(p['dd'], '..')
        return '(%s)' % ', '.join(subs)
    if k == 'or':
        return ' | '.join(pat_str(x) for x in p['s'])
    if k == 'ref':
        return '&' + pat_str(p['s'])
    if k == 'guard':
        return pat_str(p['s']) + ' if ..'
    if k == 'range':
        return 'range'
    if k == 'slice':
        return '[..]'
    return k or '?'


def short(path):
    parts = path.split('::')
    return '::'.join(parts[-2:]) if len(parts) >= 2 else path


def is_irrefutable(p):
    """pattern matches everything of its type (wild / binding without subpattern / tuples of such)"""
    k = p.get('k')
    if k == 'wild':
        return True
    if k == 'bind':
        return 's' not in p or is_irrefutable(p['s'])
    if k == 'tuple':
        return all(is_irrefutable(x) for x in p['s'])
    if k == 'ref':
        return is_irrefutable(p['s'])
    if k == 'or':
        return any(is_irrefutable(x) for x in p['s'])
    return False


def strip_ref(p):
    while p.get('k') == 'ref' or (p.get('k') == 'bind' and 's' in p):
        p = p['s']
    return p


def find_match(F, fn, scrut_ty_re=None, min_arms=1, kind='Normal', pred=None, which=None):
    """the unique (or `which`-th) match in fn whose scrutinee type matches"""
    ms = []
    for m in F.matches.get(fn, []):
        if kind and m['kind'] != kind:
            continue
        if scrut_ty_re and not re.search(scrut_ty_re, m['scrut_ty']):
            continue
        if len(m['arms']) < min_arms:
            continue
        if pred and not pred(m):
            continue
        ms.append(m)
    if not ms:
        raise CheckError('anchor missing: no match on /%s/ with >=%d arms in %s' % (scrut_ty_re, min_arms, fn))
    if which is not None:
        if which >= len(ms):
            raise CheckError('anchor missing: match #%d on /%s/ in %s' % (which, scrut_ty_re, fn))
        return ms[which]
    # prefer the largest
    ms.sort(key=lambda m: -len(m['arms']))
    return ms[0]


def arm_region(F, body, match, arm_index):
    """MIR blocks attributed to the body of one arm (by span containment through expansions),
    minus blocks that belong to the body of a *nested* function (there are none: closures have
    their own bodies)."""
    arm = match['arms'][arm_index]
    return body.blocks_in_span(arm['body_sp'])


# --------------------------------------------------------------------------------------------
# call graph with trait-object and fn-pointer fan-out


class CallGraph:
    """Resolved call graph over the crate. Edges:
       - direct/resolved calls (local targets only are followed);
       - virtual calls `dyn Trait::m` -> every local impl of Trait's `m` (+ the default if any);
       - unresolved trait calls on generic receivers -> every local impl of that method;
       - indirect calls through fn pointers / Fn closures -> closures referenced (as values)
         by the calling body or stored in struct literals with fn-pointer fields (registry);
       - a body that mentions a closure or a fn item as a value gets an edge to it.
    """

    def __init__(self, F):
        self.F = F
        self.edges = defaultdict(set)
        trait_impls = defaultdict(lambda: defaultdict(list))  # trait -> method -> [fn paths]
        for imp in F.impls:
            if imp['trait']:
                for n, p, k in imp['items']:
                    if p in F.bodies_raw:
                        trait_impls[imp['trait']][n].append(p)
        for tpath, t in F.traits.items():
            for n, p, has_default in t['items']:
                if has_default and p in F.bodies_raw:
                    trait_impls[tpath][n].append(p)
        self.trait_impls = trait_impls
        # closures / fn items stored into fn-pointer struct fields anywhere (the builtin registry)
        self.fnptr_values = set()
        for s in F.structs:
            for fname, k, v in s['fields']:
                if k in ('closure', 'path') and v in F.bodies_raw:
                    self.fnptr_values.add(v)
        for b in F.all_bodies():
            e = self.edges[b.path]
            # values mentioned: closures aggregates, fn consts
            for i in b.reach:
                blk = b.blocks[i]
                if blk['cleanup']:
                    continue
                for s in blk['s']:
                    if s[0] != 'a':
                        continue
                    self._mentions(s[2], e)
                t = blk['t']
                if t[0] == 'call':
                    for a in t[2]:
                        if a[0] == 'k' and a[1] == 'fn' and len(a) > 4 and a[4] in F.bodies_raw:
                            e.add(a[4])
            for c in b.calls:
                if c.is_indirect:
                    e.add('<indirect>')
                    continue
                r = c.callee.get('r')
                rk = c.callee.get('rk')
                d = c.callee.get('d')
                tr = c.callee.get('tr')
                if r and rk != 'virtual' and r in F.bodies_raw:
                    e.add(r)
                elif r and rk != 'virtual':
                    # foreign callee: Fn::call on a local closure resolves to the closure (local);
                    # others are leaves, but a closure argument passed to a foreign HOF is invoked:
                    # covered by the "mentions" edges above.
                    pass
                else:
                    # virtual or unresolved: fan out by trait + method name
                    if tr:
                        m = d.rsplit('::', 1)[-1]
                        for p in trait_impls.get(tr, {}).get(m, []):
                            e.add(p)
                        if tr in ('std::ops::Fn', 'std::ops::FnMut', 'std::ops::FnOnce',
                                  'core::ops::Fn', 'core::ops::FnMut', 'core::ops::FnOnce'):
                            e.add('<indirect>')
                    elif d in F.bodies_raw:
                        e.add(d)
        # indirect calls may reach any registered fn-pointer value
        self.indirect_targets = set(self.fnptr_values)

    def _mentions(self, rv, e):
        F = self.F
        k = rv[0]
        ops = []
        if k == 'agg':
            if rv[1] == 'closure' and rv[2] in F.bodies_raw:
                e.add(rv[2])
            ops = rv[5]
        elif k in ('use',):
            ops = [rv[1]]
        elif k == 'cast':
            ops = [rv[2]]
        for a in ops:
            if a and a[0] == 'k' and a[1] == 'fn' and len(a) > 4 and a[4] in F.bodies_raw:
                e.add(a[4])

    def reachable(self, entries, indirect=True):
        seen = set()
        st = list(entries)
        while st:
            x = st.pop()
            if x in seen:
                continue
            seen.add(x)
            for y in self.edges.get(x, ()):
                if y == '<indirect>':
                    if indirect:
                        for z in self.indirect_targets:
                            if z not in seen:
                                st.append(z)
                    continue
                if y not in seen:
                    st.append(y)
        seen.discard('<indirect>')
        return seen

    def path_to(self, entries, target):
        """one call path entries -> target (for reports)"""
        from collections import deque
        prev = {}
        dq = deque()
        for e in entries:
            prev[e] = None
            dq.append(e)
        while dq:
            x = dq.popleft()
            if x == target:
                out = []
                while x is not None:
                    out.append(x)
                    x = prev[x]
                return list(reversed(out))
            ys = set(self.edges.get(x, ()))
            if '<indirect>' in ys:
                ys |= self.indirect_targets
            for y in sorted(ys):
                if y not in prev and y != '<indirect>':
                    prev[y] = x
                    dq.append(y)
        return None


# --------------------------------------------------------------------------------------------
# registry of builtins


class Registry:
    """Every struct literal / unit struct handed to Env::insert_builtin* inside `initialize`:
    builtin name -> record {adt, fields{name:(kind,value)}, body (closure/fn def-path)}"""

    def __init__(self, F, init_fn='initialize'):
        self.F = F
        self.by_name = defaultdict(list)
        self.init = None
        for p in F.fns:
            if p == init_fn or p.endswith('::' + init_fn):
                self.init = p
        if self.init is None:
            raise CheckError('anchor missing: fn initialize')
        for s in F.structs:
            if s['fn'] != self.init:
                continue
            fields = {n: (k, v) for n, k, v in s['fields']}
            nm = fields.get('name')
            if nm and nm[0] == 'str':
                rec = {'name': nm[1], 'adt': s['adt'], 'fields': fields, 'sp': s['sp']}
                b = fields.get('body')
                rec['body'] = b[1] if b and b[0] in ('closure', 'path') else None
                self.by_name[nm[1]].append(rec)
        # unit-struct builtins: impl Builtin whose builtin_name returns a literal
        self.unit = {}
        for imp in F.impls_of('core::Builtin'):
            bn = F.impl_fn(imp, 'builtin_name')
            if bn and bn in F.bodies_raw:
                b = F.body(bn)
                lits = set()
                for i in b.reach:
                    for s in b.stmts(i):
                        if s[0] == 'a' and s[2][0] == 'use' and s[2][1][0] == 'k' and s[2][1][3] == '&str':
                            lits.add(s[2][1][2])
                if len(lits) == 1:
                    name = list(lits)[0]
                    if name.startswith('"'):
                        name = json.loads(name) if _is_json_str(name) else name.strip('"')
                    self.unit[name] = imp

    def body_of(self, name):
        recs = self.by_name.get(name)
        if not recs:
            raise CheckError('anchor missing: builtin %r not registered with a struct literal' % name)
        if recs[0]['body'] is None:
            raise CheckError('anchor missing: builtin %r has no closure/fn body' % name)
        return recs[0]['body']

    def names(self):
        return set(self.by_name) | set(self.unit)


def _is_json_str(s):
    try:
        json.loads(s)
        return True
    except Exception:
        return False


def const_str(op):
    """the &str literal of a constant operand, or None"""
    if op and op[0] == 'k' and op[3] == '&str':
        v = op[2]
        if v.startswith('"') and _is_json_str(v):
            return json.loads(v)
        return v.strip('"')
    return None


# --------------------------------------------------------------------------------------------
# boolean guards: which successor of a switch corresponds to "the call returned true"


def bool_switches(body, start_local):
    """Follow a boolean (possibly wrapped in Result/ControlFlow by `?`) from `start_local` through
    copies, `?`, field/downcast projections and `!` to every SwitchInt on it.
    Returns [(switch_bb, true_target, false_target)] with negations accounted for."""
    tracked = {start_local: 0}
    changed = True
    while changed:
        changed = False
        for i in body.reach:
            blk = body.blocks[i]
            if blk['cleanup']:
                continue
            for s in blk['s']:
                if s[0] != 'a':
                    continue
                dst = s[1]
                if len(dst) != 1:
                    continue
                rv = s[2]
                src = None
                flip = 0
                if rv[0] == 'use':
                    src = op_local(rv[1])
                elif rv[0] == 'un' and rv[1] == 'Not':
                    src = op_local(rv[2])
                    flip = 1
                elif rv[0] == 'discr':
                    continue
                if src is not None and src in tracked:
                    p = tracked[src] ^ flip
                    if dst[0] not in tracked:
                        tracked[dst[0]] = p
                        changed = True
            t = blk['t']
            if t[0] == 'call':
                c = t[1]
                nm = (c.get('d') or '')
                if nm.endswith('::branch') or nm.endswith('::not') or nm.endswith('Not::not'):
                    a = t[2][0] if t[2] else None
                    src = op_local(a)
                    if src in tracked and len(t[3]) == 1 and t[3][0] not in tracked:
                        tracked[t[3][0]] = tracked[src] ^ (0 if nm.endswith('::branch') else 1)
                        changed = True
    out = []
    for i in sorted(body.reach):
        t = body.term(i)
        if t[0] == 'switch' and t[4] == 'bool':
            l = op_local(t[1])
            if l in tracked:
                zero = None
                for v, b in t[2]:
                    if v == '0':
                        zero = b
                other = t[3]
                if zero is None:
                    continue
                tt, ff = other, zero
                if tracked[l]:
                    tt, ff = ff, tt
                out.append((i, tt, ff))
    return out


def only_when(body, guard_call, target_bbs, want=True):
    """target blocks are reachable from the guard's switch only through the `want` successor.
    Returns (ok, why)."""
    sw = bool_switches(body, guard_call.dest[0])
    if not sw:
        return False, 'result of %s is never branched on' % guard_call.target
    for (bb, tt, ff) in sw:
        good, bad = (tt, ff) if want else (ff, tt)
        bad_reach = body.reachable_from(bad, avoid={bb})
        hit = [t for t in target_bbs if t in bad_reach]
        # a target reachable from both sides of the switch after they re-join is not guarded
        if hit:
            return False, 'bb%d reachable when %s is %s' % (hit[0], guard_call.target, not want)
    return True, ''


def every_path_passes_correlated(body, src, dst_set, through, pure_pats=('is_empty', 'is_some', 'is_none')):
    """every_path_passes, but branches on repeated calls of a pure predicate (`x.is_empty()`) on the
    same receiver root are treated as one boolean: infeasible mixed paths are pruned.
    Returns (ok, detail)."""
    groups = defaultdict(list)   # (callee, receiver roots) -> [(switch_bb, true_t, false_t)]
    for c in body.calls:
        last = c.target.rsplit('::', 1)[-1]
        if last in pure_pats and c.args:
            key = (last, frozenset(body.root_names(c.args[0])))
            for sw in bool_switches(body, c.dest[0]):
                groups[key].append(sw)
    groups = {k: v for k, v in groups.items() if len(v) >= 1}
    keys = sorted(groups, key=str)
    if len(keys) > 6:
        keys = keys[:6]
    import itertools
    for assignment in itertools.product([True, False], repeat=len(keys)):
        cut = set()
        for k, val in zip(keys, assignment):
            for (bb, tt, ff) in groups[k]:
                cut.add((bb, ff if val else tt))
        # search
        seen = set()
        st = [src]
        bad = None
        while st:
            x = st.pop()
            if x in seen:
                continue
            seen.add(x)
            if x in through:
                continue
            if x in dst_set:
                bad = x
                break
            for s in body.succ[x]:
                if (x, s) not in cut:
                    st.append(s)
        if bad is not None:
            return False, 'path reaching bb%d avoids the required call under %s' % (
                bad, dict(zip([k[0] + str(sorted(k[1])) for k in keys], assignment)))
    return True, '%d correlated predicate group(s)' % len(keys)


# --------------------------------------------------------------------------------------------
# pattern algebra (structural, conservative)


def pat_subsumes(g, s):
    """pattern g matches every value that pattern s matches (structural, conservative)"""
    g = strip_ref(g)
    s = strip_ref(s)
    k = g.get('k')
    if k in ('wild', 'bind'):
        return True
    if k == 'or':
        return any(pat_subsumes(x, s) for x in g['s'])
    if s.get('k') == 'or':
        return all(pat_subsumes(g, x) for x in s['s'])
    if k == 'path':
        return s.get('k') == 'path' and s['p'] == g['p']
    if k == 'ts':
        if s.get('k') != 'ts' or s['p'] != g['p']:
            return False
        gs, ss = _expand(g), _expand(s)
        n = max(len(gs), len(ss))
        gs += [{'k': 'wild'}] * (n - len(gs))
        ss += [{'k': 'wild'}] * (n - len(ss))
        return all(pat_subsumes(a, b) for a, b in zip(gs, ss))
    if k == 'tuple':
        if s.get('k') != 'tuple' or len(s['s']) != len(g['s']):
            return False
        return all(pat_subsumes(a, b) for a, b in zip(g['s'], s['s']))
    return False


def _expand(p):
    subs = list(p['s'])
    if p.get('dd', -1) >= 0:
        subs = subs[:p['dd']] + [{'k': 'wild'}] * 4 + subs[p['dd']:]
        # `..` in the middle never occurs here; pad generously, comparison pads the other side
        subs = p['s'][:p['dd']] + [{'k': 'wild'}] * 4
    return subs


def pat_disjoint(a, b):
    a = strip_ref(a)
    b = strip_ref(b)
    ka, kb = a.get('k'), b.get('k')
    if ka in ('wild', 'bind') or kb in ('wild', 'bind'):
        return False
    if ka == 'or':
        return all(pat_disjoint(x, b) for x in a['s'])
    if kb == 'or':
        return all(pat_disjoint(a, x) for x in b['s'])
    if ka in ('path', 'ts', 'struct') and kb in ('path', 'ts', 'struct'):
        if a['p'] != b['p']:
            return True
        if ka == 'ts' and kb == 'ts':
            for x, y in zip(_expand(a), _expand(b)):
                if pat_disjoint(x, y):
                    return True
        return False
    if ka == 'tuple' and kb == 'tuple':
        return any(pat_disjoint(x, y) for x, y in zip(a['s'], b['s']))
    return False




# --------------------------------------------------------------------------------------------
# value origins (stops at calls; records casts / arithmetic / payload projections)


def origins(body, op, passthru=(), _seen=None, _depth=0):
    """Where does the value of an operand come from? Returns a set of labels:
       ('const', text)            ('param', name, type)       ('payload', 'Variant', base type)
       ('call', target)           ('bin', op)                 ('un', op)
       ('cast', kind, from->to)   ('agg', path, variant)      ('other', what)
    Copies, moves, references and dereferences are followed; calls are followed through their
    first argument only when their last path segment is in `passthru`."""
    out = set()
    if op is None:
        return out
    if op[0] == 'k':
        _const_origin(body, op, out)
        return out
    if op[0] not in ('c', 'm'):
        out.add(('other', 'operand'))
        return out
    _origins_place(body, op[1], passthru, _seen if _seen is not None else set(), out, _depth)
    return out


def _const_origin(body, op, out):
    pa = promoted_aggs(body.F, op[2])
    if pa:
        for (path, variant, _ops) in pa:
            out.add(('agg', path, variant))
    else:
        pcs = promoted_consts(body.F, op[2])
        if pcs:
            for t in pcs:
                out.add(('const', t))
        else:
            out.add(('const', op[2]))


def _origins_place(body, place, passthru, seen, out, depth, pend=None):
    L = place[0]
    projs = place[1:]
    # field index selected on this local (to look through tuple aggregates)
    ff = [p for p in projs if isinstance(p, str) and p.startswith('f')]
    if ff:
        try:
            pend = int(ff[0][1:].split(':')[0])
        except ValueError:
            pend = None
    lty = body.locals[L] if L < len(body.locals) else ''
    chain = []
    for p in projs:
        if isinstance(p, str) and p.startswith('v') and ':' in p:
            vname = p.split(':', 1)[1]
            if vname in ('Some', 'Ok'):
                continue
            if vname == 'Continue' and 'ControlFlow' in lty and not chain:
                continue
            chain.append(vname)
    if chain:
        # field path after the last downcast (which payload field of that variant)
        fpath = []
        seen_last = False
        for p in reversed(projs):
            if isinstance(p, str) and p.startswith('v') and ':' in p:
                break
            if isinstance(p, str) and p.startswith('f'):
                fpath.append(p.split(':')[0])
        # fields selected before the first downcast (e.g. which element of a scrutinee tuple)
        pre = []
        for p in projs:
            if isinstance(p, str) and p.startswith('v') and ':' in p:
                break
            if isinstance(p, str) and p.startswith('f'):
                pre.append(p.split(':')[0])
        out.add(('payload', chain[0], lty, '>'.join(chain), '.'.join(reversed(fpath)), '.'.join(pre)))
        return
    key = (L, tuple(str(p) for p in projs if isinstance(p, str) and p.startswith('f')), pend)
    if key in seen or depth > 80:
        return
    seen.add(key)
    if 1 <= L <= body.argc:
        out.add(('param', body.varnames.get(L, '_%d' % L), lty))
    ds = body.defs().get(L, [])
    if not ds and not (1 <= L <= body.argc):
        out.add(('other', 'undef _%d' % L))
    for (bb, j, kind, s) in ds:
        if kind == 'call':
            c = s[1]
            tgt = c.get('r') or c.get('d') or '<indirect>'
            last = tgt.rsplit('::', 1)[-1]
            if last in passthru and s[2]:
                a = s[2][0]
                if a[0] == 'k':
                    _const_origin(body, a, out)
                elif a[0] in ('c', 'm'):
                    _origins_place(body, a[1], passthru, seen, out, depth + 1)
            else:
                out.add(('call', tgt, c.get('tr', ''), (c.get('g') or [''])[0]))
            continue
        dst = s[1]
        rv = s[2]
        k = rv[0]
        if k == 'use':
            o = rv[1]
            if o[0] == 'k':
                _const_origin(body, o, out)
            elif o[0] in ('c', 'm'):
                _origins_place(body, o[1], passthru, seen, out, depth + 1, pend if len(o[1]) == 1 else None)
        elif k in ('ref', 'rawptr'):
            _origins_place(body, rv[-1], passthru, seen, out, depth + 1)
        elif k == 'cast' and rv[1] in ('Transmute', 'PtrToPtr') and rv[2][0] in ('c', 'm'):
            # Box deref lowering: the pointer inside a Box is transmuted before the dereference
            _origins_place(body, rv[2][1], passthru, seen, out, depth + 1)
        elif k == 'cast':
            o = rv[2]
            fty = ''
            if o[0] in ('c', 'm'):
                fty = body.locals[o[1][0]] if len(o[1]) == 1 else '?'
            elif o[0] == 'k':
                fty = o[3]
            out.add(('cast', rv[1], '%s->%s' % (fty, rv[3])))
        elif k == 'bin':
            out.add(('bin', rv[1]))
        elif k == 'un':
            out.add(('un', rv[1]))
        elif k == 'agg':
            if rv[1] == 'tuple' and pend is not None and pend < len(rv[5]):
                o = rv[5][pend]
                if o[0] == 'k':
                    _const_origin(body, o, out)
                elif o[0] in ('c', 'm'):
                    _origins_place(body, o[1], passthru, seen, out, depth + 1)
            else:
                out.add(('agg', rv[2], rv[4]))
        elif k == 'discr':
            out.add(('other', 'discriminant'))
        else:
            out.add(('other', k))


# ---------------------------------------------------------------------------------------------------------------
# format_args! templates (core::fmt::Arguments::new(template, args)): the byte encoding documented in
# library/core/src/fmt/mod.rs of the pinned nightly; used to read width / fill / flags of a placeholder.
def _unescape_bytes(text):
    m = re.match(r'^b"(.*)"$', text, re.S)
    if not m:
        return None
    t = m.group(1)
    out = bytearray()
    i = 0
    esc = {'n': 10, 't': 9, 'r': 13, '0': 0, '\\': 92, '"': 34, "'": 39}
    while i < len(t):
        c = t[i]
        if c == '\\':
            n = t[i + 1]
            if n == 'x':
                out.append(int(t[i + 2:i + 4], 16))
                i += 4
            elif n in esc:
                out.append(esc[n])
                i += 2
            else:
                return None
        else:
            out += c.encode('utf-8')
            i += 1
    return bytes(out)


def decode_fmt_template(text):
    """-> list of ('lit', str) / ('arg', dict(flags, fill, zero_pad, alternate, width, precision, arg_index)) or None when the
    constant is not a well-formed template"""
    b = _unescape_bytes(text)
    if b is None:
        return None
    out = []
    i = 0
    try:
        while True:
            n = b[i]
            i += 1
            if n == 0:
                return out if i == len(b) else None
            if n < 0x80:
                out.append(('lit', b[i:i + n].decode('utf-8')))
                i += n
            elif n == 0x80:
                ln = b[i] | (b[i + 1] << 8)
                out.append(('lit', b[i + 2:i + 2 + ln].decode('utf-8')))
                i += 2 + ln
            elif n >= 0xC0:
                d = {'flags': None, 'fill': ' ', 'zero_pad': False, 'alternate': False, 'width': None, 'precision': None,
                     'arg_index': None, 'width_indirect': bool(n & 16), 'precision_indirect': bool(n & 32)}
                if n & 1:
                    fl = int.from_bytes(b[i:i + 4], 'little')
                    i += 4
                    d['flags'] = fl
                    d['fill'] = chr(fl & 0x1FFFFF)
                    d['zero_pad'] = bool(fl & (1 << 24))
                    d['alternate'] = bool(fl & (1 << 23))
                if n & 2:
                    d['width'] = b[i] | (b[i + 1] << 8)
                    i += 2
                if n & 4:
                    d['precision'] = b[i] | (b[i + 1] << 8)
                    i += 2
                if n & 8:
                    d['arg_index'] = b[i] | (b[i + 1] << 8)
                    i += 2
                out.append(('arg', d))
            else:
                return None
    except (IndexError, UnicodeDecodeError):
        return None


def fmt_templates(body):
    """decoded templates of every fmt::Arguments::new call in a body: [(call, decoded-or-None)]"""
    res = []
    for c in body.calls:
        if re.search(r"fmt::Arguments::<'?\w*>::new$|fmt::Arguments::new$", c.target):
            og = origins(body, c.args[0])
            consts = [o[1] for o in og if o[0] == 'const']
            res.append((c, decode_fmt_template(consts[0]) if len(consts) == 1 else None))
    return res


def builds_error(F, c):
    """does this call construct an interpreter error? NErr::*_error / NErr::throw, or any crate function whose return type is
    core::NErr (error-constructing helpers extracted by a refactoring)"""
    if re.search(r'NErr::\w+_error(_\d)?$|core::NErr::throw$|NErr::argument_error_\w+$', c.target):
        return True
    fn = F.fns.get(c.target)
    return bool(fn) and fn.get('output') == 'core::NErr'


def scope_constructors(F):
    """crate functions that build a child environment: they return Rc<RefCell<Env>> and take the parent environment
    (Env::with_parent today; a second constructor added by a refactoring is picked up automatically)"""
    out = set()
    for p_, f in F.fns.items():
        if f.get('output') == 'std::rc::Rc<std::cell::RefCell<core::Env>>' and any('core::Env' in str(i) for i in f.get('inputs', [])) \
                and p_.startswith('core::Env::'):
            out.add(p_)
    out.add('core::Env::with_parent')
    return out


def try_body_scope(F):
    """evaluate(Expr::Try): -> (ok, detail, loc). ok when the try body is evaluated in the enclosing environment (the function's own
    `env` parameter) and only the catch clause uses a child scope - the model freeze (C17) and the scoping rules (C05) assume."""
    fn = 'eval::evaluate'
    if not F.has_fn(fn):
        return None, 'evaluate missing', None
    eb = F.body(fn)
    me = find_match(F, fn, r'core::Expr\b', min_arms=30)
    regn = set()
    for i, a in enumerate(me['arms']):
        if any(p_ == 'core::Expr::Try' for p_ in pat_paths(a['pat'])):
            regn |= arm_region(F, eb, me, i)
    if not regn:
        return None, 'Expr::Try arm missing', None
    evs = [c for c in eb.calls_in(regn) if c.target == fn and len(c.args) > 1]
    body_ev = []
    for c in evs:
        og = origins(eb, c.args[1], passthru=('deref', 'as_ref', 'borrow'))
        # the try body is field 0 of the Try node
        if any(o[0] == 'payload' and o[1] == 'Try' and str(o[4]).startswith('f0') for o in og):
            body_ev.append(c)
    if not body_ev:
        return None, 'evaluation of the try body not found', None
    for c in body_ev:
        eo = origins(eb, c.args[0], passthru=('deref', 'as_ref', 'borrow'))
        if not eo or not all(o[0] == 'param' and o[1] == 'env' for o in eo):
            return False, 'the try body is evaluated in %s' % sorted(str(o[:2]) for o in eo), c.loc()
    return True, 'try body in the enclosing environment, catch clause in a child scope', body_ev[0].loc()


_FAMILY_CACHE = {}


def family_bodies(F, fn, depth=3):
    """the function together with what a maintainer may have split off from it: its closures and nested fns, and the crate
    functions it calls that are called from nowhere else (private helpers of this function), transitively up to `depth`.
    Rules that ask "does this function (somewhere) do X" use the family so that extracting a helper does not change the answer."""
    key = (id(F), fn, depth)
    if key in _FAMILY_CACHE:
        return _FAMILY_CACHE[key]
    if not hasattr(F, '_rev_calls'):
        rev = {}
        for b in F.all_bodies():
            owner = b.path
            for c in b.calls:
                if c.target in F.bodies_raw:
                    rev.setdefault(c.target, set()).add(owner)
        F._rev_calls = rev

    def root(p):
        while p in F.closure_parent:
            p = F.closure_parent[p]
        return p
    fam = []
    seen = set()
    work = [(fn, 0)]
    r0 = root(fn)
    member_roots = {r0}
    while work:
        p, d = work.pop()
        if p in seen or not F.has_fn(p):
            continue
        seen.add(p)
        b = F.body(p)
        fam.append(b)
        for cl in F.closures_of(p):
            work.append((cl, d))
        # nested fn items
        for q in F.bodies_raw:
            if q.startswith(p + '::') and '::promoted' not in q and q not in seen and q.count('::') == p.count('::') + 1 and '{closure' not in q.rsplit('::', 1)[-1]:
                work.append((q, d))
        if d >= depth:
            continue
        for c in b.calls:
            t = c.target
            if t in seen or t not in F.bodies_raw or t == fn:
                continue
            callers = {root(x) for x in F._rev_calls.get(t, ())}
            if callers and callers <= member_roots | {root(t)}:
                member_roots.add(root(t))
                work.append((t, d + 1))
    _FAMILY_CACHE[key] = fam
    return fam


def family_calls(F, fn, depth=3):
    return [c for b in family_bodies(F, fn, depth) for c in b.calls]


def param_sources(body, op, passthru=('into_bigint', 'to_bigint', 'from', 'deref', 'clone', 'borrow', 'into', 'as_ref', 'into_owned', 'neg', 'abs')):
    """which parameters (local numbers 1..argc) can an operand's value come from? Field-sensitive through tuple aggregates
    (`match (self, other)`), through copies, references, casts and the listed identity-like calls (first argument)."""
    argc = body.raw.get('argc', 0)
    out = set()
    seen = set()

    def place(pl, depth):
        if depth > 40:
            return
        L = pl[0]
        fields = [p_ for p_ in pl[1:] if isinstance(p_, str) and p_.startswith('f')]
        key = (L, tuple(fields[:1]))
        if key in seen:
            return
        seen.add(key)
        if 1 <= L <= argc:
            out.add(L)
            return
        for (bb, j, kind, st) in body.defs().get(L, []):
            if kind == 'a':
                rv = st[2]
                if len(st[1]) > 1:
                    continue
                if rv[0] == 'use' and rv[1][0] in ('c', 'm'):
                    place(rv[1][1] + [p_ for p_ in pl[1:]], depth + 1)
                elif rv[0] == 'ref':
                    place(rv[2] + [p_ for p_ in pl[1:]], depth + 1)
                elif rv[0] == 'cast' and rv[2][0] in ('c', 'm'):
                    place(rv[2][1], depth + 1)
                elif rv[0] == 'agg' and rv[1] == 'tuple' and fields:
                    idx = int(fields[0][1:].split(':')[0])
                    if idx < len(rv[5]) and rv[5][idx][0] in ('c', 'm'):
                        rest = pl[1:]
                        # drop the first field projection, keep the others
                        k = rest.index(fields[0])
                        place(rv[5][idx][1] + rest[k + 1:], depth + 1)
                elif rv[0] == 'agg':
                    for o in rv[5]:
                        if o[0] in ('c', 'm'):
                            place(o[1], depth + 1)
                elif rv[0] in ('bin',):
                    for o in rv[2:4]:
                        if o[0] in ('c', 'm'):
                            place(o[1], depth + 1)
            elif kind == 'call':
                t = st
                tgt = (t[1].get('r') or t[1].get('d') or '')
                if tgt.rsplit('::', 1)[-1] in passthru and t[2] and t[2][0][0] in ('c', 'm'):
                    place(t[2][0][1], depth + 1)
    if op[0] in ('c', 'm'):
        place(op[1], 0)
    return out
