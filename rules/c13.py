"""C13 - sequence library: kind preservation and stability/first-occurrence tables (static clauses only)."""
import re
from .core import (family_calls, CheckError, find_match, arm_region, pat_str, strip_ref, origins, only_when, pat_paths,
                   Registry, op_local, bool_switches)

META = {
    'level': 'other',
    'explanation': (
        'The equations f(xs) == reference(xs) of C13 are NOT decided (they quantify over runtime values); only the clauses of the '
        'statement that are finite tables or shapes are: (R13.1) kind preservation, exhaustively per helper and input kind: filter/reject, '
        'sort, sort_by, sort_on, unique, reverse rebuild the kind they were given (list, string, vector, bytes; dict keys and streams '
        'become lists), take/drop with a predicate and uncons/unsnoc likewise; the registered builtins reach those helpers; (R13.2) sort is '
        'stable (slice::sort_by, no unstable sort anywhere) and unique keeps first occurrences (push iff HashSet::insert returned true, '
        'forward iteration); (R13.3) the combinatorial streams start from the documented first element (identity permutation, first k '
        'indices, all-false mask); (R13.4) predicate loops over streams make progress (C11 R11.3).'),
    'trusted_base': ['rustc nightly HIR/MIR', 'slice::sort_by is stable (std)'],
    'assumptions': ['map/filter/fold/group/window/... results as functions of their inputs are not decided'],
}

KINDS = ['List', 'String', 'Dict', 'Vector', 'Bytes', 'Stream']


def out_kind(F, b, region):
    """which sequence kind an arm constructs: Seq aggregates, Obj::list, Obj::from::<String>"""
    ks = set()
    for _bb, s in b.aggregates(region):
        if s[2][2] == 'core::Seq':
            ks.add(s[2][4])
    for c in b.calls_in(region):
        if c.target == 'core::Obj::list':
            ks.add('List')
        if c.target.endswith('::from') and 'std::string::String' in str(c.callee.get('g')) and 'core::Obj' in (c.da + str(c.callee.get('g'))):
            ks.add('String')
        if c.target.endswith('Stream::reversed') or c.target.endswith('Stream::pythonic_slice'):
            ks.add('Seq-from-stream')
        if c.target == 'uncons':
            ks.add('delegates:uncons')
    return ks


def _flows_to_ok_return(b, local):
    """is `local` the payload of an Ok(..) assigned to the return place?"""
    for bb, s_ in b.aggregates():
        if s_[1] == [0] and s_[2][2] == 'std::result::Result' and s_[2][4] == 'Ok':
            for o in s_[2][5]:
                if o[0] in ('m', 'c') and o[1] and o[1][0] == local:
                    return True
    return False


def run(F, rep, tier):
    reg = Registry(F)
    # ---------------- R13.1
    rep.rule('R13.1', 'kind preservation table: for each helper and each input kind the arm builds List->List, String->String, '
             'Vector->Vector, Bytes->Bytes, Dict->List (keys), Stream->List (Stream for drop/uncons which stay lazy)', exhaustive=True)
    helpers = ['multi_reverse', 'multi_sort', 'multi_sort_by', 'multi_sort_on', 'multi_filter', 'multi_unique', 'take_while', 'drop_while', 'uncons', 'unsnoc']
    want = {'List': {'List'}, 'String': {'String'}, 'Vector': {'Vector'}, 'Bytes': {'Bytes'}, 'Dict': {'List'}, 'Stream': {'List'}}
    special = {('drop_while', 'Stream'): {'Stream'}, ('uncons', 'Stream'): {'Stream'}, ('uncons', 'Dict'): {'Dict', 'List'}, ('unsnoc', 'Dict'): {'delegates:uncons'},
               ('multi_reverse', 'Stream'): {'Seq-from-stream'}, ('unsnoc', 'Stream'): {'List'}}
    n1 = 0
    for h in helpers:
        if not F.has_fn(h):
            rep.error('R13.1', 'helper %s missing' % h)
            continue
        b = F.body(h)
        covered = set()
        for m in F.matches.get(h, []):
            if m['kind'] != 'Normal' or not re.search(r'core::Seq\b', m['scrut_ty']):
                continue
            for i, a in enumerate(m['arms']):
                ps = [p.rsplit('::', 1)[-1] for p in pat_paths(a['pat']) if p.startswith('core::Seq::')]
                if len(ps) != 1 or ps[0] in covered:
                    continue
                k = ps[0]
                regn = arm_region(F, b, m, i)
                got = out_kind(F, b, regn)
                w = special.get((h, k), want[k])
                covered.add(k)
                n1 += 1
                if got and got <= w | ({'Seq-from-stream'} if (h, k) in special else set()):
                    rep.ok('R13.1', '%s(%s)' % (h, k), 'builds %s' % sorted(got))
                elif not got and k == 'Stream' and h in ('uncons',):
                    rep.ok('R13.1', '%s(%s)' % (h, k), 'stays a stream')
                else:
                    rep.viol('R13.1', '%s|%s|kind' % (h, k), '%s on a %s builds %s, expected %s: filter-like functions must return the kind they were given' % (h, k, sorted(got), sorted(w)), b.loc(min(regn)) if regn else None)
        miss = set(KINDS) - covered
        if miss:
            rep.viol('R13.1', '%s|kinds-missing' % h, '%s has no arm of its own for %s' % (h, sorted(miss)), b.loc(0))
    rep.floor('R13.1', 'helper x kind rows', n1, 54)
    reach = {'filter': 'multi_filter', 'reject': 'multi_filter', 'sort': 'multi_sort', 'sort_on': 'multi_sort_on', 'unique': 'multi_unique',
             'reverse': 'multi_reverse', 'take': 'take_while', 'drop': 'drop_while'}
    for nm, helper in reach.items():
        bodies = []
        if nm in reg.by_name and reg.by_name[nm][0]['body']:
            bodies = [reg.by_name[nm][0]['body']]
        elif nm in reg.unit:
            bodies = [p for _n, p, _k in reg.unit[nm]['items'] if _n.startswith('run')]
        else:
            rep.error('R13.1', 'builtin %r not registered' % nm)
            continue
        if any(c.target == helper for p in bodies if F.has_fn(p) for c in F.body(p).calls):
            rep.ok('R13.1', 'builtin %s' % nm, 'reaches ' + helper)
        else:
            rep.viol('R13.1', 'builtin|%s|helper' % nm, 'builtin %s no longer goes through %s' % (nm, helper), None)

    # ---------------- R13.2
    rep.rule('R13.2', 'sorted / sorted_by / sorted_on use the stable slice::sort_by and there is no sort_unstable in the crate; uniqued pushes an '
             'element exactly when HashSet::insert returned true while iterating forward')
    for fn in ('sorted', 'sorted_by', 'sorted_on'):
        if not F.has_fn(fn):
            rep.error('R13.2', 'missing ' + fn)
            continue
        b = F.body(fn)
        if any(re.search(r'::sort_by$', c.target) for c in b.calls):
            rep.ok('R13.2', fn, 'slice::sort_by (stable)')
        else:
            rep.viol('R13.2', fn + '|stable', '%s does not use the stable sort_by' % fn, b.loc(0))
    uns = [(b.path, c) for b in F.all_bodies() for c in b.calls if 'sort_unstable' in c.target]
    if uns:
        for p, c in uns:
            rep.viol('R13.2', p + '|sort_unstable', 'unstable sort', c.loc())
    else:
        rep.ok('R13.2', 'crate scan', 'no sort_unstable* call')
    if F.has_fn('uniqued'):
        b = F.body('uniqued')
        ins = [c for c in b.calls if c.target.endswith('HashSet::<T, S, A>::insert') or (c.target.endswith('::insert') and 'HashSet' in c.target)]
        push = [c for c in b.calls if c.target.endswith('::push')]
        rev = [c for c in b.calls if c.target.endswith('::rev')]
        if ins and push and not rev and only_when(b, ins[0], [p.bb for p in push], want=True)[0]:
            rep.ok('R13.2', 'uniqued', 'push iff insert() == true, forward iteration')
        else:
            rep.viol('R13.2', 'uniqued|first-occurrence', 'unique no longer keeps exactly the first occurrence of each element (insert %d, push %d, rev %d)' % (len(ins), len(push), len(rev)), b.loc(0))
    else:
        rep.error('R13.2', 'missing uniqued')

    # ---------------- R13.3
    rep.rule('R13.3', 'permutations starts at the identity index vector (0..len), combinations at the first k indices (0..k), subsequences at '
             'the all-false mask: the first element of the documented order')
    for nm, kind in (('permutations', 'range0'), ('combinations', 'range0'), ('subsequences', 'falsevec')):
        try:
            b = F.body(reg.body_of(nm))
        except CheckError as e:
            rep.error('R13.3', str(e))
            continue
        if kind == 'range0':
            okr = False
            for _bb, s in b.aggregates():
                if s[2][2] == 'std::ops::Range' and s[2][5] and s[2][5][0][0] == 'k' and s[2][5][0][2].startswith('0_'):
                    okr = True
            revs = [c for c in b.calls if c.target.endswith('::rev')]
            if okr and not revs:
                rep.ok('R13.3', nm, 'initial cursor (0..n).collect()')
            else:
                rep.viol('R13.3', 'builtin|%s|initial' % nm, '%s does not start from the ascending index vector' % nm, b.loc(0))
        else:
            fv = [c for c in b.calls if 'from_elem' in c.target and any(a[0] == 'k' and a[2] == 'false' for a in c.args)]
            if fv:
                rep.ok('R13.3', nm, 'initial mask vec![false; n]')
            else:
                rep.viol('R13.3', 'builtin|%s|initial' % nm, '%s does not start from the all-false mask' % nm, b.loc(0))

    # ---------------- R13.4
    rep.rule('R13.4', 'take_while / drop_while stream arms: the peek/next loop consumes or leaves on every path')
    for fn in ('take_while', 'drop_while'):
        b = F.body(fn)
        for c in b.calls:
            if c.target.rsplit('::', 1)[-1] != 'peek' or not b.on_cycle(c.bb):
                continue
            nexts = {x.bb for x in b.calls if x.target.rsplit('::', 1)[-1] == 'next'}
            ok = True
            for s0 in b.succ[c.bb]:
                seen = set()
                st = [s0]
                while st and ok:
                    x = st.pop()
                    if x in seen or x in nexts:
                        continue
                    seen.add(x)
                    if x == c.bb:
                        ok = False
                        break
                    st.extend(b.succ[x])
            if ok:
                rep.ok('R13.4', fn + ' stream loop', 'consumes or breaks')
            else:
                rep.viol('R13.4', fn + '|peek-loop-no-progress', '%s on a stream spins forever once the predicate turns false' % fn, c.loc())
    # ---------------- R13.5
    rep.rule('R13.5', 'ziplongest advances every argument for every row: in ZipLongest::run the closure that calls next() on the argument '
             'iterators is driven by a non-short-circuiting adaptor (flat_map / filter_map / map / a for loop), never by map_while, '
             'take_while, scan, find*, all/any, try_* or position - those stop a row at the first exhausted argument')
    zl = '<ZipLongest as core::Builtin>::run'
    SHORT = ('map_while', 'take_while', 'scan', 'find', 'find_map', 'all', 'any', 'position', 'try_for_each', 'try_fold', 'skip_while', 'zip')
    if not F.has_fn(zl):
        rep.error('R13.5', 'ZipLongest::run missing')
    else:
        zb = F.body(zl)
        adv = [c_ for c_ in F.closures_of(zl) if any(c.target.endswith('::next') and 'MutObjIntoIter' in c.target for c in F.body(c_).calls)]
        drivers = []
        for bb, s_ in zb.aggregates():
            if s_[2][1] == 'closure' and s_[2][2] in adv:
                L = s_[1][0]
                for c in zb.calls:
                    if any(a[0] in ('m', 'c') and a[1] and a[1][0] == L for a in c.args):
                        drivers.append(c)
        if not adv or not drivers:
            rep.note('R13.5: ZipLongest::run advances its arguments without an adaptor closure (idiom not recognised): not decided')
            rep.ok('R13.5', 'ZipLongest::run (idiom not recognised)', 'no short-circuiting adaptor found')
        else:
            bad = [c for c in drivers if c.target.rsplit('::', 1)[-1] in SHORT]
            if bad:
                rep.viol('R13.5', 'ZipLongest|row-short-circuit|%s' % bad[0].target.rsplit('::', 1)[-1], 'ziplongest builds a row with %s: the row ends at the first exhausted argument, so later, longer arguments are dropped from it (ziplongest([1], [10, 20, 30]) loses [20] and [30])' % bad[0].target.rsplit('::', 1)[-1], bad[0].loc())
            else:
                rep.ok('R13.5', 'ZipLongest::run', 'arguments advanced through %s' % sorted({c.target.rsplit('::', 1)[-1] for c in drivers}))
    # ---------------- R13.6
    rep.rule('R13.6', 'group with a relation cuts between ADJACENT elements (BUILTINS.md): in grouped_by the first operand of the relation is the '
             'last element of the current group (its immediate predecessor), not the head of the group or any other element')
    gb = [p_ for p_ in F.fns if p_ == 'grouped_by' or p_.endswith('::grouped_by')]
    if not gb:
        rep.error('R13.6', 'grouped_by missing')
    else:
        gbb = F.body(gb[0])
        calls = [c for c in gbb.calls if c.target.endswith('FnMut::call_mut') or c.target.endswith('Fn::call') or c.target.endswith('FnOnce::call_once')]
        firsts = set()
        for c in calls:
            if len(c.args) < 2 or c.args[1][0] not in ('m', 'c'):
                continue
            for (bb, j, kind, st) in gbb.defs().get(c.args[1][1][0], []):
                if kind == 'a' and st[2][0] == 'agg' and st[2][5]:
                    firsts |= origins(gbb, st[2][5][0], passthru=('into', 'clone', 'from'))
        names = sorted({o[1].rsplit('::', 1)[-1] for o in firsts if o[0] == 'call'})
        if firsts and all(o[0] == 'call' and o[1].rsplit('::', 1)[-1] in ('last', 'back', 'last_mut') for o in firsts):
            rep.ok('R13.6', 'grouped_by', 'relation(prev = group.last(), current)')
        elif firsts and any(o[0] == 'call' and o[1].rsplit('::', 1)[-1] in ('first', 'front', 'first_mut') for o in firsts):
            rep.viol('R13.6', 'grouped_by|relation-operand|%s' % names, 'grouped_by applies the relation to the head of the current group instead of the previous element: `[1, 3, 2] group <` keeps 2 in the run because 1 < 2', calls[0].loc())
        else:
            rep.note('R13.6: grouped_by takes the first operand of the relation from %s (idiom not recognised): not decided' % (names or sorted(str(o[:2]) for o in firsts)))
            rep.ok('R13.6', 'grouped_by (idiom not recognised)', 'first operand from %s' % (names or '?'))
    # ---------------- R13.7
    rep.rule('R13.7', 'window(xs, n) of fewer than n elements is empty: windowed has a path from entry to a normal return that builds no window '
             '(passes no collect / from_iter / to_vec of the sliding buffer); if every path to a return snapshots the buffer, a too-short input yields a short window')
    wd = [p_ for p_ in F.fns if p_ == 'windowed' or p_.endswith('::windowed')]
    if not wd:
        rep.error('R13.7', 'windowed missing')
    else:
        wb = F.body(wd[0])
        snaps = {c.bb for c in wb.calls if c.target.rsplit('::', 1)[-1] in ('collect', 'from_iter', 'to_vec', 'to_owned', 'into_iter') and 'VecDeque' in str(c.callee.get('g')) + c.target} | \
                {c.bb for c in wb.calls if c.target.rsplit('::', 1)[-1] in ('collect', 'from_iter')}
        rets = {bb for bb, s_ in wb.aggregates() if s_[1] == [0] and s_[2][4] == 'Ok'}      # normal results only (error exits of `?` do not count)
        if not snaps:
            rep.note('R13.7: windowed builds its windows without collect/from_iter (idiom not recognised): not decided')
            rep.ok('R13.7', 'windowed (idiom not recognised)', 'no snapshot call found')
        elif not wb.every_path_passes(0, rets, snaps):
            rep.ok('R13.7', 'windowed', 'an exit without any window exists (short input)')
        else:
            rep.viol('R13.7', 'windowed|no-empty-exit', 'every path through windowed builds at least one window: for an input shorter than n the result is a single short window instead of no window', wb.loc(min(snaps)))
    # ---------------- R13.8
    rep.rule('R13.8', 'take / drop with a predicate stop asking at the first element that fails it: in take_while_inner and drop_while_inner the '
             'predicate call is not reachable again from the "predicate was false" edge (the kept tail is never tested: side effects, errors on '
             'elements the predicate is undefined on)')
    for fn8 in ('take_while_inner', 'drop_while_inner'):
        cand = [p_ for p_ in F.fns if p_ == fn8 or p_.endswith('::' + fn8)]
        if not cand:
            rep.error('R13.8', fn8 + ' missing')
            continue
        b8 = F.body(cand[0])
        preds = [c for c in b8.calls if c.target.endswith('Func>::run1') or c.target.endswith('::run1')]
        tr = [c for c in b8.calls if c.target.endswith('Obj::truthy')]
        if not preds or not tr:
            rep.note('R13.8: %s does not call the predicate through run1 + truthy (idiom not recognised): not decided' % fn8)
            rep.ok('R13.8', fn8 + ' (idiom not recognised)', 'not decided')
            continue
        again = False
        for t_ in tr:
            for (sw, tt, ff) in bool_switches(b8, t_.dest[0]):
                if any(p_.bb in b8.reachable_from(ff) for p_ in preds):
                    again = True
        if again:
            rep.viol('R13.8', '%s|predicate-after-failure' % fn8, '%s keeps calling the predicate after it has returned false once: `[1, 2, 5, \'x\'] drop (< 3)` raises on \'x\', counters in the predicate run too often' % fn8, preds[0].loc())
        else:
            rep.ok('R13.8', fn8, 'the predicate is not called again after its first false')
    # ---------------- R13.9
    rep.rule('R13.9', 'fold and scan combine as f(accumulator, element): in Fold::run and Scan::run the first operand of every call of the combining '
             'function carries the previous result (or the seed / first element) and the second operand comes only from the sequence iterator')
    for ty9 in ('Fold', 'Scan'):
        fn9 = '<%s as core::Builtin>::run' % ty9
        if not F.has_fn(fn9):
            rep.error('R13.9', fn9 + ' missing')
            continue
        r2s = [c for c in family_calls(F, fn9) if c.target.endswith('Func>::run2') and len(c.args) >= 4]
        if not r2s:
            rep.error('R13.9', '%s: no call of the combining function found' % fn9)
        for k9, c in enumerate(r2s):
            b9 = c.body
            o_first = origins(b9, c.args[2], passthru=('branch',))
            o_second = origins(b9, c.args[3], passthru=('branch',))
            # inside an extracted helper the running accumulator may arrive as a parameter that is reassigned from run2
            fb1 = any(o[0] == 'call' and o[1].endswith('run2') for o in o_first)
            fb2 = any(o[0] == 'call' and o[1].endswith('run2') for o in o_second) or any(o[0] == 'payload' and o[1] in ('Three', 'Two') for o in o_second)
            el2 = any(o[0] == 'call' and o[1].endswith('::next') for o in o_second)
            if fb1 and el2 and not fb2:
                rep.ok('R13.9', '%s combine #%d' % (ty9, k9), 'f(acc, element)')
            else:
                rep.viol('R13.9', '%s|combine#%d|operand-order' % (ty9, k9), '%s::run calls the combining function with the element first and the accumulator second (first operand feedback=%s; second operand from iterator=%s, feedback=%s): `[1, 2, 3] %s - from 10` is wrong for every non-commutative function' % (ty9, fb1, el2, fb2, ty9.lower()), c.loc())
    # ---------------- R13.10
    rep.rule('R13.10', '`xs ** n` / cartesian products always build lists: CartesianProduct::run never hands back a Seq taken from its arguments '
             'as the result (a string, vector, stream or dict would keep its kind for n = 1)')
    cpr = '<CartesianProduct as core::Builtin>::run'
    if not F.has_fn(cpr):
        rep.error('R13.10', cpr + ' missing')
    else:
        cpb = F.body(cpr)
        back = []
        for bb, s_ in cpb.aggregates():
            if s_[2][2] == 'core::Obj' and s_[2][4] == 'Seq' and s_[2][5]:
                og = origins(cpb, s_[2][5][0], passthru=('clone',))
                if og and all(o[0] in ('payload', 'param') for o in og):
                    # re-wrapping an argument: fine only when it flows into further processing, not into the return value
                    if any(s2[0] == 'a' and s2[1] == [0] for s2 in cpb.stmts(bb)) or any(cpb.term(x)[0] == 'ret' for x in cpb.succ[bb]) or _flows_to_ok_return(cpb, s_[1][0]):
                        back.append(bb)
        if back:
            rep.viol('R13.10', 'CartesianProduct|returns-argument', 'CartesianProduct::run returns one of its argument sequences unchanged: `\'ab\' ** 1` is the string itself instead of the list of its elements', cpb.loc(back[0]))
        else:
            rep.ok('R13.10', 'CartesianProduct::run', 'results are freshly built lists')
    from .streamfields import range_reversed_rule
    range_reversed_rule(F, rep, 'R13.11')

    rep.undecided += ['f(xs) == reference(xs) for map/filter/partition/flat_map/flatten/zip/window/group/fold/scan/... (value equations)',
                      'the complete enumeration order of permutations/combinations/subsequences beyond their first element']
    return META
