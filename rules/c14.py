"""C14 - every failure is a catchable error: panic census, arithmetic census, error-propagation discipline, loop progress."""
import re
from .core import (CheckError, find_match, arm_region, pat_str, strip_ref, origins, only_when, pat_paths,
                   Registry, op_local, bool_switches)
from .census import Census
from . import c14_tables as T

META = {
    'level': 'other',
    'explanation': (
        'Decides an exact inventory, not panic-freedom for all inputs: (R14.1) every explicit panic site (unwrap/expect/panic!/'
        'panicking RefCell borrow) in the in-crate call closure of the pure language - evaluate, Func::run*, parse, lex, freeze, every '
        'registered builtin body except the I/O table, every Builtin/Stream/Catamorphism method and every local impl of a foreign trait '
        '(callbacks) - is keyed without line numbers and must carry a reviewed verdict; an unlisted site is a violation; (R14.2) every '
        'compiler-inserted arithmetic assert (overflow, division/remainder by zero, negation) in that closure is discharged by a sound '
        'class (unit-step counters, non-zero constant divisors, a dominating comparison of the same quantities with the right polarity, '
        'exit-count decrements after the zero arm) or by the reviewed table with an exact count per function; (R14.3) NRes values are not '
        'discarded: the discarding idioms (.ok(), is_err(), Err(_) arms) are enumerated and must be in the reviewed table; (R14.4) every '
        'error constructor builds NErr::Throw and the control-flow variants are built only by their reviewed sites; internal stack '
        'primitives truncate on both paths; (R14.6) peek loops make progress (C11 R11.3 crate-wide). General termination, stack depth and '
        'panics inside dependencies are not decided.'),
    'trusted_base': ['rustc nightly HIR/MIR and the resolved call graph (trait objects and fn pointers fanned out)',
                     'the reviewed verdicts in rules/c14_tables.py (one reason per entry)'],
    'assumptions': ['termination in general, recursion depth, OOM by legitimately huge results, panics inside num/regex/flate2/serde_json on valid inputs'],
}

ENTRIES = ['eval::evaluate', 'core::parse', "lex::Lexer::<'a>::lex", 'core::freeze', 'core::parse_format_string']


def pure_closure(F, C):
    entries = [e for e in ENTRIES if F.has_fn(e)] + [p for p in F.fns if re.search(r'impl core::Func>::run', p)]
    missing = [e for e in ENTRIES if not F.has_fn(e)]
    return C.pure_reach(entries), missing


def match_table(table, key):
    for rx, verdict, reason in table:
        if re.search(rx, key):
            return verdict, reason
    return None, None


def comparison_guarded(b, bb, kind, ops):
    """Sub(x, y) / Add sign guards discharged by a dominating comparison with the right polarity."""
    if not kind.startswith('Overflow:Sub') or len(ops) != 2:
        return False
    x, y = ops

    def oset(o):
        return {str(t[:2]) for t in origins(b, o)}
    ox, oy = oset(x), oset(y)
    yconst = y[0] == 'k'
    yval = None
    if yconst:
        m = re.match(r'^(-?\d+)_', y[2])
        yval = int(m.group(1)) if m else None
    for i in b.dominators()[bb]:
        if i == bb:
            continue
        for s in b.stmts(i):
            if s[0] != 'a' or s[2][0] != 'bin' or s[2][1] not in ('Lt', 'Le', 'Gt', 'Ge', 'Eq', 'Ne'):
                continue
            p, q = s[2][2], s[2][3]
            op = s[2][1]
            op_, oq = oset(p), oset(q)
            qconst = q[0] == 'k'
            qval = None
            if qconst:
                m = re.match(r'^(-?\d+)_', q[2])
                qval = int(m.group(1)) if m else None
            safe_true = safe_false = False
            if op_ & ox and not qconst and (oq & oy):
                safe_true, safe_false = op in ('Ge', 'Gt'), op in ('Lt',) or (op == 'Le' and False)
                if op == 'Le':
                    safe_false = True   # !(x <= y)  =>  x > y
            elif oq & ox and not yconst and (op_ & oy):
                safe_true, safe_false = op in ('Le', 'Lt'), op in ('Gt', 'Ge') and op == 'Gt' or op == 'Ge' and False
                if op == 'Ge':
                    safe_false = True   # !(y >= x) => y < x
                if op == 'Gt':
                    safe_false = True   # !(y > x) => y <= x
            elif op_ & ox and qconst and yconst and qval is not None and yval is not None:
                # x compared with a constant, subtracting a constant
                if op == 'Eq' and qval == 0 and yval <= 1:
                    safe_false = True
                elif op == 'Ne' and qval == 0 and yval <= 1:
                    safe_true = True
                elif op == 'Gt' and qval + 1 >= yval:
                    safe_true = True
                elif op == 'Ge' and qval >= yval:
                    safe_true = True
                elif op == 'Lt' and qval >= yval:
                    safe_false = True
                elif op == 'Le' and qval + 1 >= yval:
                    safe_false = True
            if not (safe_true or safe_false):
                continue
            for (sw, tt, ff) in bool_switches(b, s[1][0]):
                good, bad = (tt, ff) if safe_true else (ff, tt)
                if bb in b.reachable_from(good, avoid={sw}) and bb not in b.reachable_from(bad, avoid={sw}):
                    return True
    return False


def _viol_once(rep, rid, key, msg, loc=None):
    """the same site seen under a second feature set is one violation, not two"""
    full = '%s|%s' % (rid, key)
    if any(v['key'] == full for v in rep.violations):
        return
    rep.viol(rid, key, msg, loc)



def known_via_callers(C, rep, rid, path, kind):
    """a census site in an untabled helper whose every caller carries a *listed known finding* of the same rule and kind is the same
    finding, moved into the helper: -> the caller's function key (the finding is then reported under that key), else None"""
    if not path:
        return None
    from .report import load_known
    known, _f = load_known()
    cs = C.callers_of(path) - {path}
    if not cs:
        return None
    keys = set()
    for g in cs:
        gk = C.fn_key(g)
        import re as _re
        norm = lambda k: _re.sub(r'::\\{closure#\\d+\\}', '', k)
        if not any(p_ == rep.pid and norm(k_) == norm('%s|%s|%s' % (rid, gk, kind)) for (p_, k_) in known):
            return None
        keys.add(gk)
    return sorted(keys)[0]


def moved_ok(C, groups, lookup, path_of, key, n, census_name=None):
    """helper-extraction tolerance for the table censuses: see Census.moved_from_reviewed. groups: {(fn_key, kind): [sites]},
    lookup(fn_key, kind) -> reviewed count or None, path_of: fn_key -> def path. Budget taken from a caller is remembered."""
    fk, kind = key
    used = groups.setdefault('__used__', {})
    cur = {}
    for k, v in groups.items():
        if k != '__used__':
            cur[k] = len(v)

    def spare(g):
        gk = C.fn_key(g)
        cnt = lookup(gk, kind)
        vals = []
        if cnt is not None:
            vals.append(cnt - cur.get((gk, kind), 0) - used.get((gk, kind), 0))
        if census_name:
            # sites that sat in a closure of the caller are counted under the caller's named root (root_budget.json, reviewed tree)
            from .census import root_budget, root_key
            rk = root_key(gk)
            rb = root_budget().get(census_name, {}).get('%s|%s' % (rk, kind))
            if rb is not None:
                curroot = sum(n_ for (k_, kk_), n_ in cur.items() if kk_ == kind and root_key(k_) == rk)
                vals.append(rb - curroot - used.get(('root', rk, kind), 0))
        return max(vals) if vals else None
    if census_name:
        from .census import within_root_budget, root_key
        if within_root_budget(census_name, groups, fk, kind):
            return [root_key(fk)]
    path = path_of.get(fk)
    if not path:
        return None
    tops = C.moved_from_reviewed(path, n, spare)
    if tops:
        for g in tops:
            gk = C.fn_key(g)
            used[(gk, kind)] = used.get((gk, kind), 0) + n
            if census_name:
                from .census import root_key as _rk
                used[('root', _rk(gk), kind)] = used.get(('root', _rk(gk), kind), 0) + n
    return tops


LAST_GROUPS = {}


def census_part(F, C, R, rep, tag=''):
    """R14.1 + R14.2 over one configuration (tag names a non-default feature set)"""
    sites = C.panic_sites(R)
    pgroups = {}
    for key, fn, c, kind, msg in sites:
        pgroups.setdefault((C.fn_key(fn), kind), []).append(c)
    ppaths = {C.fn_key(fn): fn for _k, fn, _c, _kd, _m in sites}

    def reviewed_panics(g, k):
        n = sum(1 for i in range(24) if match_table(T.PANIC_TABLE, '%s|%s|#%d' % (g, k, i))[0])
        return n or None
    moved_seen = set()
    for key, fn, c, kind, msg in sites:
        verdict, reason = match_table(T.PANIC_TABLE, key)
        fk1 = C.fn_key(fn)
        if verdict:
            rep.ok('R14.1', tag + key, '%s: %s' % (verdict, reason))
        elif (fk1, kind) in moved_seen or (reviewed_panics(fk1, kind) is None and moved_ok(C, pgroups, reviewed_panics, ppaths, (fk1, kind), len(pgroups[(fk1, kind)]), 'panic')):
            moved_seen.add((fk1, kind))
            rep.ok('R14.1', tag + key + ' (moved)', 'helper reached only from reviewed functions that lost at least as many %s sites' % kind)
        else:
            _viol_once(rep, 'R14.1', key, 'unreviewed panic site in the pure language: %s in %s%s - a failure here unwinds through try/catch instead of raising a catchable error'
                     % (kind, C.fn_key(fn), (' ("%s")' % msg) if msg else ''), c.loc())
    rep.floor('R14.1', 'panic sites triaged', len(sites), 60)

    asites = C.arith_sites(R)
    per = {}
    auto = {'counter': 0, 'const-divisor': 0, 'comparison-guarded': 0, 'exit-decrement': 0, 'bounds': 0}
    for key, fn, bb, kind, ops in asites:
        b = F.body(fn)
        if kind == 'BoundsCheck':
            auto['bounds'] += 1
            continue
        consts = [o for o in ops if o[0] == 'k']
        if kind.startswith('Overflow:Add') and consts:
            m = re.match(r'^(\d+)_(usize|u32|u64|i32|isize|i64|u8)$', consts[0][2])
            if m and int(m.group(1)) <= 4 and m.group(2) != 'u8':
                auto['counter'] += 1
                continue
        if kind in ('DivisionByZero', 'RemainderByZero', 'Overflow:Div', 'Overflow:Rem'):
            # find the Div/Rem statement fed by the same dividend in the successor and look at its divisor
            divisor_const = False
            for nb in [bb] + b.succ[bb]:
                for s in b.stmts(nb):
                    if s[0] == 'a' and s[2][0] == 'bin' and s[2][1] in ('Div', 'Rem') and s[2][3][0] == 'k':
                        m = re.match(r'^(-?\d+)_', s[2][3][2])
                        if m and int(m.group(1)) not in (0, -1):
                            divisor_const = True
            if divisor_const:
                auto['const-divisor'] += 1
                continue
        if kind == 'Overflow:Sub' and len(ops) == 2 and ops[1][0] == 'k' and ops[1][2].startswith('1_') and any(
                o[0] == 'payload' and ('Break' in o[3] or 'Continue' in o[3]) for o in origins(b, ops[0])):
            auto['exit-decrement'] += 1
            continue
        if comparison_guarded(b, bb, kind, ops):
            auto['comparison-guarded'] += 1
            continue
        fk = C.fn_key(fn)
        per.setdefault((fk, kind), []).append((b, bb))
    rep.extra[tag + 'arithmetic_asserts'] = {'total': len(asites), 'auto_discharged': auto, 'table_sites': sum(len(v) for k_, v in per.items() if k_ != '__used__')}
    for cls, n in auto.items():
        if n:
            rep.ok('R14.2', tag + 'class %s' % cls, '%d assert(s) discharged automatically' % n)
    used = set()
    for (fk, kind), lst in sorted((k_, v_) for k_, v_ in per.items() if k_ != '__used__'):
        ent = None
        for row in T.ARITH_TABLE:
            rx, k, cnt, reason = row[:4]
            if k == kind and re.search(rx, fk):
                ent = (rx, cnt, reason, row[4] if len(row) > 4 else None)
        if ent and ent[3]:
            # the reviewed reason rests on where an operand comes from: re-check it
            bad = None
            for (b_, bb_) in lst:
                t_ = b_.term(bb_)
                if not any(re.search(ent[3], str(o)) for x in t_[4] for o in origins(b_, x)):
                    bad = (b_, bb_)
            if bad:
                _viol_once(rep, 'R14.2', '%s|%s|operand' % (fk, kind), 'the reviewed argument for %s in %s requires an operand derived from %s, which is no longer the case' % (kind, fk, ent[3]), bad[0].loc(bad[1]))
                continue
        if ent and len(lst) <= ent[1]:
            used.add(ent[0] + kind)
            rep.ok('R14.2', tag + '%s %s x%d' % (fk, kind, len(lst)), 'reviewed: ' + ent[2])
        elif ent:
            _viol_once(rep, 'R14.2', '%s|%s|count' % (fk, kind), '%s now has %d unguarded %s assert(s), the reviewed table covers %d: new machine arithmetic on possibly user-controlled values needs review'
                     % (fk, len(lst), kind, ent[1]), lst[-1][0].loc(lst[-1][1]))
        elif moved_ok(C, per, lambda g, k: next((row[2] for row in T.ARITH_TABLE if row[1] == k and re.search(row[0], g)), None), {C.fn_key(x[0].path): x[0].path for v in per.values() if isinstance(v, list) for x in v}, (fk, kind), len(lst), 'arith'):
            rep.ok('R14.2', tag + '%s %s x%d (moved)' % (fk, kind, len(lst)), 'helper reached only from reviewed functions that lost at least as many such asserts')
        elif known_via_callers(C, rep, 'R14.2', {C.fn_key(x[0].path): x[0].path for v in per.values() if isinstance(v, list) for x in v}.get(fk), kind):
            g_ = known_via_callers(C, rep, 'R14.2', {C.fn_key(x[0].path): x[0].path for v in per.values() if isinstance(v, list) for x in v}.get(fk), kind)
            _viol_once(rep, 'R14.2', '%s|%s' % (g_, kind), 'unguarded machine arithmetic (%s) in %s, a helper reached only from %s where this finding is listed: panics in debug builds / wraps in release for extreme values' % (kind, fk, g_), lst[0][0].loc(lst[0][1]))
        else:
            _viol_once(rep, 'R14.2', '%s|%s' % (fk, kind), 'unguarded machine arithmetic (%s x%d) in %s: panics in debug builds / wraps in release for extreme values'
                     % (kind, len(lst), fk), lst[0][0].loc(lst[0][1]))
    rep.floor('R14.2', 'arithmetic asserts examined', len(asites), 150)


    # ---- indexing census
    from .census import index_sites
    isites = index_sites(C, R)
    perk = {}
    autoc = {}
    for fk, kind, b, bb, auto in isites:
        if auto:
            autoc[auto] = autoc.get(auto, 0) + 1
        else:
            perk.setdefault((fk, kind), []).append((b, bb))
    for cls, n in sorted(autoc.items()):
        rep.ok('R14.9', tag + 'class %s' % cls, '%d indexing site(s) discharged automatically' % n)
    for (fk, kind), lst in sorted((k_, v_) for k_, v_ in perk.items() if k_ != '__used__'):
        ent = None
        for rx, k, cnt, reason in T.INDEX_TABLE:
            if k == kind and re.search(rx, fk):
                ent = (cnt, reason)
                break
        if ent and len(lst) <= ent[0]:
            rep.ok('R14.9', tag + '%s %s x%d' % (fk, kind, len(lst)), 'reviewed: ' + ent[1])
        elif ent:
            _viol_once(rep, 'R14.9', '%s|index:%s|count' % (fk, kind), '%s now has %d %s indexing operations, %d were reviewed: an index that is not provably in range panics instead of raising an index error'
                       % (fk, len(lst), kind, ent[0]), lst[-1][0].loc(lst[-1][1]))
        elif moved_ok(C, perk, lambda g, k: next((cnt for rx, kk, cnt, _r in T.INDEX_TABLE if kk == k and re.search(rx, g)), None), {C.fn_key(x[0].path): x[0].path for v in perk.values() if isinstance(v, list) for x in v}, (fk, kind), len(lst), 'index'):
            rep.ok('R14.9', tag + '%s %s x%d (moved)' % (fk, kind, len(lst)), 'helper reached only from reviewed functions of this kind that lost at least as many sites')
        else:
            what = {'str-range': 'slicing a str by byte positions panics when a position is not a char boundary (or out of range)',
                    'HashMap': 'indexing a map panics on a missing key'}.get(kind, 'an index or range that is not provably inside the sequence panics')
            _viol_once(rep, 'R14.9', '%s|index:%s' % (fk, kind), 'unreviewed indexing (%s x%d) in %s, reachable from the pure language: %s - it must be an index/value error a program can catch'
                       % (kind, len(lst), fk, what), lst[0][0].loc(lst[0][1]))
    rep.floor('R14.9', 'indexing sites examined', len(isites), 90)
    rep.extra[tag + 'indexing_sites'] = {'total': len(isites), 'auto_discharged': autoc, 'table_sites': sum(len(v) for k_, v in perk.items() if k_ != '__used__')}

    # ---- std APIs with index / range / radix preconditions
    from .census import std_precondition_sites
    ssites = std_precondition_sites(C, R)
    pers = {}
    autos = {}
    for fk, api, b, c, auto in ssites:
        if auto:
            autos[auto] = autos.get(auto, 0) + 1
        else:
            pers.setdefault((fk, api), []).append(c)
    for cls, n in sorted(autos.items()):
        rep.ok('R14.10', tag + 'class %s' % cls, '%d call(s) discharged automatically' % n)
    for (fk, api), lst in sorted((k_, v_) for k_, v_ in pers.items() if k_ != '__used__'):
        ent = None
        for rx, k, cnt, reason in T.STDPRE_TABLE:
            if k == api and re.search(rx, fk):
                ent = (cnt, reason)
                break
        if ent and len(lst) <= ent[0]:
            rep.ok('R14.10', tag + '%s %s x%d' % (fk, api, len(lst)), 'reviewed: ' + ent[1])
        elif ent:
            _viol_once(rep, 'R14.10', '%s|%s|count' % (fk, api), '%s now calls %s %d time(s), %d were reviewed: the call panics when its position / range / radix argument is out of range' % (fk, api, len(lst), ent[0]), lst[-1].loc())
        elif moved_ok(C, pers, lambda g, k: next((cnt for rx, kk, cnt, _r in T.STDPRE_TABLE if kk == k and re.search(rx, g)), None), {C.fn_key(x.body.path): x.body.path for v in pers.values() if isinstance(v, list) for x in v}, (fk, api), len(lst), 'stdpre'):
            rep.ok('R14.10', tag + '%s %s x%d (moved)' % (fk, api, len(lst)), 'helper reached only from reviewed functions that lost at least as many such calls')
        else:
            _viol_once(rep, 'R14.10', '%s|%s' % (fk, api), 'unreviewed call of %s in %s (x%d), reachable from the pure language: it panics on an out-of-range position, an inverted or out-of-range range, a non-boundary string position, a zero size or a radix above 36' % (api, fk, len(lst)), lst[0].loc())
    rep.floor('R14.10', 'std precondition call sites examined', len(ssites), 50)
    if not tag:
        LAST_GROUPS.update({'panic': pgroups, 'arith': per, 'index': perk, 'stdpre': pers})


def run(F, rep, tier):
    C = Census(F)
    R, missing = pure_closure(F, C)
    for m in missing:
        rep.error('R14.1', 'entry point %s missing' % m)
    rep.extra['pure_closure_functions'] = len(R)
    rep.extra['impure_builtins_excluded'] = sorted(n for n in __import__('rules.census', fromlist=['IMPURE']).IMPURE if n in C.reg.by_name)
    rep.floor('R14.1', 'functions in the pure-language closure', len(R), 1200)

    # ---------------- R14.1
    rep.rule('R14.1', 'explicit panic census over the pure-language closure: every unwrap / expect / panic! / panicking borrow is keyed '
             '(function or builtin name, kind, ordinal) and listed with a verdict infeasible / guarded / internal; unlisted => violation')
    # ---------------- R14.2
    rep.rule('R14.9', 'indexing census: every v[i] / v[a..b] / s[a..b] / map[k] in the closure (MIR bounds checks and Index::index / index_mut calls on Vec, '
             'slices, str and HashMap) has an index produced by one of the normalisers (pythonic_index*, cyclic_index, pythonic_slice_obj, '
             'safe_index_inner), is a full range, or is in the reviewed table with an exact count per function and kind')
    rep.rule('R14.10', 'std APIs with preconditions: every Vec::remove / insert / swap_remove / drain / split_off, slice::swap / split_at / chunks / '
             'windows, String::remove / insert / drain / truncate / replace_range, str::split_at, step_by, char::to_digit / from_digit / is_digit, '
             'integer abs / pow / clamp call in the closure is discharged by a class (full range, constant radix 2..=36, constant non-zero size, '
             'insert at 0, constant clamp bounds) or listed in the reviewed table with an exact count')
    rep.rule('R14.2', 'arithmetic census: each overflow / division / remainder / negation assert in the closure is discharged by a class '
             '(unit-step counter, non-zero constant divisor, dominating comparison with the right polarity, exit-count decrement) or by '
             'the reviewed table with an exact per-function count')
    census_part(F, C, R, rep)
    if tier == 'thorough' and hasattr(F, 'ensure_facts') and getattr(F, 'repo_dir', None):
        try:
            fp, _c = F.ensure_facts(F.repo_dir, features='crypto,request')
            from .core import Facts
            F2 = Facts(fp)
            C2 = Census(F2)
            R2, _m = pure_closure(F2, C2)
            rep.extra['pure_closure_functions[crypto,request]'] = len(R2)
            census_part(F2, C2, R2, rep, tag='[features crypto,request] ')
        except SystemExit as e:
            rep.note('feature set crypto,request could not be analysed offline: %s' % e)

    # ---------------- R14.3
    rep.rule('R14.3', 'NRes values are not silently dropped: every .ok() / is_err() / is_ok() / unwrap_or* on a Result<_, NErr> and every '
             'Err(_) arm over such a result is in the reviewed table')
    idioms = {}
    for b in F.all_bodies():
        if b.path not in R:
            continue
        for c in b.calls:
            last = c.target.rsplit('::', 1)[-1]
            g = c.callee.get('g') or []
            if 'result::Result' in c.target and last in ('ok', 'unwrap_or', 'unwrap_or_default', 'unwrap_or_else', 'is_ok', 'is_err', 'err', 'or', 'or_else') \
                    and any('core::NErr' in x for x in g[:2]):
                idioms.setdefault(C.fn_key(b.path), []).append(('Result::' + last, c.loc()))
    for fn, ms in F.matches.items():
        if fn not in R:
            continue
        for m in ms:
            if 'NErr' not in m['scrut_ty'] or m['kind'].startswith('TryDesugar'):
                continue
            for a in m['arms']:
                if re.search(r'Err\(_\)', pat_str(a['pat'])):
                    idioms.setdefault(C.fn_key(fn), []).append(('Err(_) arm', F.loc(a['sp'])))
    nd = sum(len(v) for v in idioms.values())
    for fk, lst in sorted(idioms.items()):
        ent = None
        for rx, cnt, why in T.DISCARD_BUDGET:
            if re.search(rx, fk):
                ent = (cnt, why)
        forms = sorted({x[0] for x in lst})
        if ent and len(lst) <= ent[0]:
            rep.ok('R14.3', '%s: %d x %s' % (fk, len(lst), forms), 'reviewed: ' + ent[1])
        else:
            rep.viol('R14.3', '%s|discard' % fk, '%s inspects or drops an NRes without propagating its error %d time(s) (%s; reviewed: %d): an error could be swallowed instead of reaching try/catch' % (fk, len(lst), forms, ent[0] if ent else 0), lst[-1][1])
    rep.floor('R14.3', 'discarding idioms examined', nd, 10)

    # ---------------- R14.4
    rep.rule('R14.4', 'every NErr::*_error constructor builds NErr::Throw; NErr::Break / Continue / Return are built only in evaluate (their '
             'statements and the exit algebra), the folds and the any/all bodies; InternalFrame / InternalFor truncate the internal stack '
             'on the path taken after the body whether it succeeded or not')
    ctor_ok = 0
    for fn in F.fns_matching(r'^core::NErr::\w+$'):
        b = F.body(fn)
        built = {s[2][4] for _bb, s in b.aggregates() if s[2][2] == 'core::NErr'}
        calls_throw = any(c.target.startswith('core::NErr::') for c in b.calls)
        if fn.endswith('_error') or fn.endswith('_error_loc') or fn.endswith('throw'):
            if built <= {'Throw'} and (built or calls_throw):
                ctor_ok += 1
            else:
                rep.viol('R14.4', fn + '|variant', 'error constructor %s builds %s' % (fn, sorted(built)), b.loc(0))
    rep.floor('R14.4', 'error constructors building Throw', ctor_ok, 8)
    if ctor_ok:
        rep.ok('R14.4', 'NErr constructors', '%d constructors build only NErr::Throw' % ctor_ok)
    allowed_cf = re.compile(r'^(eval::evaluate|<SeqAndMappedFoldBuiltin as core::Builtin>::run[12]?|builtin\((any|all|find|find\?|locate|locate\?|count)\).*|<core::NErr as std::clone::Clone>::clone|'
                            r'<(core::)?Cata\w+ as core::Catamorphism>::give|core::err_add_name|core::add_trace.*|<streams::\w+ as .*)$')
    for b in F.all_bodies():
        for bb, s in b.aggregates():
            if s[2][2] == 'core::NErr' and s[2][4] in ('Break', 'Continue', 'Return'):
                fk = C.fn_key(b.path)
                if allowed_cf.match(fk):
                    rep.ok('R14.4', '%s builds NErr::%s' % (fk, s[2][4]), 'reviewed control-flow site')
                else:
                    rep.viol('R14.4', '%s|control-flow-variant|%s' % (fk, s[2][4]), '%s builds NErr::%s: a control-flow exit raised outside the evaluator escapes try/catch handling' % (fk, s[2][4]), b.loc(bb))
    # internal frames truncate after the body
    evaluate = F.anchor('eval::evaluate')
    eb = F.body(evaluate)
    me = find_match(F, evaluate, r'core::Expr\b', min_arms=30)
    for i, a in enumerate(me['arms']):
        ps = [p.rsplit('::', 1)[-1] for p in pat_paths(a['pat'])]
        if ps and ps[0] in ('InternalFrame',):
            regn = arm_region(F, eb, me, i)
            ev = [c for c in eb.calls_in(regn) if c.target == evaluate]
            tr = [c for c in eb.calls_in(regn) if c.target.endswith('::truncate')]
            if ev and tr and all(eb.dominates(ev[0].bb, t.bb) for t in tr) and not any(c.target.endswith('::branch') and eb.dominates(ev[0].bb, c.bb) and any(eb.dominates(c.bb, t.bb) for t in tr) and
                                                                                   any(o[0] == 'call' and o[1] == evaluate for o in origins(eb, c.args[0])) for c in eb.calls_in(regn)):
                rep.ok('R14.4', 'Expr::InternalFrame', 'truncate follows the body evaluation before its result is inspected')
            else:
                rep.viol('R14.4', evaluate + '|InternalFrame|truncate', 'the internal stack is not truncated on the error path of an internal frame', eb.loc(min(regn)) if regn else None)

    # a Break that leaves a fold builtin is neither a value nor an error try/catch receives (same facts as C05 R5.4)
    from .c05 import fold_break_sites
    for fn, okf, loc_ in fold_break_sites(F):
        if okf:
            rep.ok('R14.4', '%s translates the fold body\'s Break' % fn, 'no control-flow signal escapes the builtin')
        else:
            rep.viol('R14.4', '%s|fold-break-escapes' % fn, '%s lets the Break(0, value) with which its fold body ends early escape to the caller: evaluation ends with `break`, which is neither a value nor an error that try/catch receives' % fn, loc_)
    # ---------------- R14.11
    rep.rule('R14.11', 'allocations sized by a user-supplied number: every with_capacity / reserve / reserve_exact / vec![x; n] (from_elem) / resize / '
             'str::repeat / slice::repeat in the closure whose size argument is not a constant and not derived from the length of an existing '
             'collection is reported: an absurd size is a capacity-overflow panic or an allocation abort, not a catchable error (the fallible '
             'try_reserve family is not flagged)')
    ALLOC = re.compile(r'::(with_capacity|with_capacity_and_hasher|reserve|reserve_exact|from_elem|resize|repeat|repeat_n)$')
    n11 = 0
    per11 = {}
    for b in F.all_bodies():
        if b.path not in R:
            continue
        for c in b.calls:
            if not ALLOC.search(c.target) or not re.search(r'vec::|string::String|str::<impl str>|slice::<impl|VecDeque|HashMap|HashSet|std::vec::from_elem', c.target):
                continue
            last = c.target.rsplit('::', 1)[-1]
            szi = 0 if last.startswith('with_capacity') else 1
            if len(c.args) <= szi:
                continue
            n11 += 1
            rn = b.root_names(c.args[szi])
            derived = bool(rn) and all(r.startswith('const:') or (r.startswith('call:') and r.rsplit('::', 1)[-1] in ('len', 'count', 'capacity')) for r in rn)
            if derived:
                rep.ok('R14.11', '%s: %s' % (C.fn_key(b.path), last), 'size is a constant or derived from the length of an existing collection')
            else:
                per11.setdefault((C.fn_key(b.path), last), []).append(c)
    for (fk, last), lst in sorted(per11.items()):
        rep.viol('R14.11', '%s|alloc:%s' % (fk, last), '%s allocates with %s (x%d) a number of elements taken from its argument: for an absurd size the process panics (capacity overflow) or aborts (allocation failure) instead of raising an error that try/catch receives' % (fk, last, len(lst)), lst[0].loc())
    rep.floor('R14.11', 'sized allocations examined', n11, 10)
    # ---------------- R14.7
    rep.rule('R14.7', 'partial division-like operations (NInt/NNum Rem, div_floor, mod_floor, Ratio recip/new/Div/Rem, rem_euclid, DivAssign) '
             'called outside the operator layers: the divisor is a non-zero constant, or a zero test / length comparison on the same value '
             'dominates the call with the right polarity, or the site is in the reviewed table; Cycle is only built from a non-empty base')
    PART = re.compile(r"^(<&?(nint::NInt) as std::ops::(Div|Rem)(<.*>)?>::(div|rem)|<&?nnum::NNum as std::ops::Rem(<.*>)?>::rem|nnum::NNum::(div_floor|mod_floor)|"
                      r"nint::NInt::(div_floor|mod_floor)|num::rational::Ratio::<T>::(recip|new)|.*Ratio<T>.* as std::ops::(Div|Rem).*|"
                      r"core::num::<impl [iu]\w+>::(rem_euclid|div_euclid)|<nint::NInt as std::ops::DivAssign<u32>>::div_assign)$")
    n7 = 0
    for b in F.all_bodies():
        if b.path not in R:
            continue
        if re.match(r'^<&?(nnum::NNum|nint::NInt) as std::ops::', b.path) or b.path in ('nnum::NNum::div_floor', 'nnum::NNum::mod_floor', 'nint::NInt::div_floor', 'nint::NInt::mod_floor'):
            continue
        for c in b.calls:
            if not PART.match(c.target):
                continue
            n7 += 1
            fk = C.fn_key(b.path)
            last = c.target.rsplit('::', 1)[-1]
            div = c.args[0] if last == 'recip' else c.args[-1]
            dor = origins(b, div, passthru=('from', 'into', 'clone', 'deref', 'borrow', 'new', 'to_bigint', 'into_bigint', 'into_owned', 'as_ref'))
            dset = {str(o[:2]) for o in dor}
            roots = b.roots(div, through_calls=(r'into_bigint$', r'to_bigint$', r'into_owned$'))
            # (1) constant divisor
            if roots and all(r[0] == 'const' and not re.match(r'^0(_|$)', r[1]) for r in roots):
                rep.ok('R14.7', '%s: %s' % (fk, last), 'constant non-zero divisor')
                continue
            # (2) zero test dominating with polarity
            okg = False
            for g in b.calls:
                gl = g.target.rsplit('::', 1)[-1]
                if gl not in ('is_zero', 'is_nonzero', 'is_empty') or not b.dominates(g.bb, c.bb):
                    continue
                go = {str(o[:2]) for o in origins(b, g.args[0], passthru=('from', 'into', 'clone', 'deref', 'borrow', 'new', 'to_bigint', 'into_bigint', 'into_owned', 'as_ref'))}
                if not (go & dset) and not ({r[:2] for r in b.roots(g.args[0])} & {r[:2] for r in roots}):
                    continue
                if only_when(b, g, [c.bb], want=(gl == 'is_nonzero'))[0]:
                    okg = True
            if okg:
                rep.ok('R14.7', '%s: %s' % (fk, last), 'zero test on the divisor dominates the call')
                continue
            # (3) comparison of a length with 0
            for i in b.dominators()[c.bb]:
                for s_ in b.stmts(i):
                    if s_[0] == 'a' and s_[2][0] == 'bin' and s_[2][1] in ('Eq', 'Ne') and s_[2][3][0] == 'k' and s_[2][3][2].startswith('0_'):
                        lo = {r[:2] for r in b.roots(s_[2][2])}
                        if lo & {r[:2] for r in roots}:
                            for (sw, tt, ff) in bool_switches(b, s_[1][0]):
                                good = ff if s_[2][1] == 'Eq' else tt
                                bad = tt if s_[2][1] == 'Eq' else ff
                                if c.bb in b.reachable_from(good, avoid={sw}) and c.bb not in b.reachable_from(bad, avoid={sw}):
                                    okg = True
            if okg:
                rep.ok('R14.7', '%s: %s' % (fk, last), 'length compared with 0 before dividing by it')
                continue
            reason = None
            for rx, l2, why in T.PARTIAL_TABLE:
                if l2 == last and re.search(rx, fk):
                    reason = why
            if reason:
                rep.ok('R14.7', '%s: %s' % (fk, last), 'reviewed: ' + reason)
            else:
                rep.viol('R14.7', '%s|partial|%s' % (fk, last), '%s calls %s with a divisor that is neither constant nor tested for zero: the dependency panics on a zero divisor (not a catchable error)' % (fk, c.target.split('<')[0][:60] + last), c.loc())
    rep.floor('R14.7', 'partial operations outside the operator layers', n7, 20)
    # a rational raised to a negative power takes a reciprocal inside num: zero base + negative exponent panics there
    npow = 0
    for b in F.all_bodies():
        if b.path not in R:
            continue
        for c in b.calls:
            if not (c.target.endswith('::pow') and 'Ratio<T>' in c.target and 'BigInt' in c.target):
                continue
            npow += 1
            fk = C.fn_key(b.path)
            PT = ('from', 'into', 'clone', 'deref', 'borrow', 'to_bigint', 'into_bigint', 'as_ref')
            base_o = {str(o[:4]) for o in origins(b, c.args[0], passthru=PT)}
            exp_o = {str(o[:4]) for o in origins(b, c.args[1], passthru=PT)}
            negf = set()
            for g in b.calls:
                if g.target.rsplit('::', 1)[-1] in ('is_negative', 'is_positive') and g.args and ({str(o[:4]) for o in origins(b, g.args[0], passthru=PT)} & exp_o):
                    for (sw, tt, ff) in bool_switches(b, g.dest[0]):
                        negf.add(ff if g.target.endswith('is_negative') else tt)      # the "exponent is not negative" side
            guarded = False
            for g in b.calls:
                if g.target.rsplit('::', 1)[-1] == 'is_zero' and g.args and ({str(o[:4]) for o in origins(b, g.args[0], passthru=PT)} & base_o):
                    sws = bool_switches(b, g.dest[0])
                    if sws and all(c.bb not in b.reachable_from(tt, avoid=negf) for (sw, tt, ff) in sws):
                        guarded = True
            if guarded:
                rep.ok('R14.7', '%s: Ratio pow' % fk, 'a zero base with a negative exponent never reaches the call')
            else:
                rep.viol('R14.7', '%s|partial|ratio-pow' % fk, '%s raises a rational to an integer power without excluding "zero base, negative exponent": num takes the reciprocal of zero and panics ((0/1) ^ (-1))' % fk, c.loc())
    rep.floor('R14.7', 'rational powers', npow, 1)
    # the Cycle non-emptiness belief
    built = [(b, bb) for b in F.all_bodies() for bb, s_ in b.aggregates() if s_[2][2] == 'streams::Cycle']
    for b, bb in built:
        fk = C.fn_key(b.path)
        if fk.startswith('<streams::Cycle as '):
            rep.ok('R14.7', 'Cycle built in %s' % fk, 'derived from an existing (non-empty) Cycle')
            continue
        emp = [g for g in b.calls if g.target.rsplit('::', 1)[-1] == 'is_empty' and b.dominates(g.bb, bb)]
        if emp and only_when(b, emp[0], [bb], want=False)[0]:
            rep.ok('R14.7', 'Cycle built in %s' % fk, 'only when the base is not empty')
        else:
            rep.viol('R14.7', '%s|cycle-empty' % fk, 'a Cycle stream can be built over an empty base: next/index then take a remainder by zero and index an empty vector', b.loc(bb))

    # ---------------- R14.8
    rep.rule('R14.8', 'std slice operations that panic on a length mismatch (copy_from_slice, clone_from_slice, swap_with_slice) are dominated by '
             'an equality test between a len() of the source and the expected length')
    n8 = 0
    for b in F.all_bodies():
        if b.path not in R:
            continue
        for c in b.calls:
            if c.target.rsplit('::', 1)[-1] not in ('copy_from_slice', 'clone_from_slice', 'swap_with_slice'):
                continue
            n8 += 1
            src_roots = {r[:2] for r in b.roots(c.args[1], through_calls=(r'as_bytes$',))}
            okl = False
            for i in b.dominators()[c.bb]:
                for s_ in b.stmts(i):
                    if s_[0] == 'a' and s_[2][0] == 'bin' and s_[2][1] in ('Eq', 'Ne'):
                        for x in s_[2][2:4]:
                            og = origins(b, x)
                            if any(o[0] == 'call' and o[1].endswith('::len') for o in og):
                                # the len must be taken of (something derived from) the copied source
                                for (bb_, j_, k_, d_) in b.defs().get(op_local(x), []) if op_local(x) is not None else []:
                                    if k_ == 'call' and d_[1].get('d', '').endswith('::len'):
                                        if {r[:2] for r in b.roots(d_[2][0], through_calls=(r'as_bytes$',))} & src_roots:
                                            for (sw, tt, ff) in bool_switches(b, s_[1][0]):
                                                good = tt if s_[2][1] == 'Eq' else ff
                                                bad = ff if s_[2][1] == 'Eq' else tt
                                                if c.bb in b.reachable_from(good, avoid={sw}) and c.bb not in b.reachable_from(bad, avoid={sw}):
                                                    okl = True
            fk = C.fn_key(b.path)
            if okl:
                rep.ok('R14.8', '%s: %s' % (fk, c.target.rsplit('::', 1)[-1]), 'length of the source tested for equality first')
            else:
                rep.viol('R14.8', '%s|%s|unguarded' % (fk, c.target.rsplit('::', 1)[-1]), '%s calls %s without first testing the byte length of the source: a length mismatch panics inside std (not catchable)' % (fk, c.target.rsplit('::', 1)[-1]), c.loc())
    rep.floor('R14.8', 'length-sensitive slice copies', n8, 1)

    # ---------------- R14.6
    rep.rule('R14.6', 'peek()-guarded loops consume or leave on every path (C11 R11.3, evaluated crate-wide here)')
    n6 = 0
    for b in F.all_bodies():
        if b.path not in R:
            continue
        for c in b.calls:
            if c.target.rsplit('::', 1)[-1] != 'peek' or not b.on_cycle(c.bb):
                continue
            if c.target.startswith('core::Parser'):
                continue   # recursive-descent loops consume through sub-parsers: decided by C15 R15.3
            n6 += 1
            nexts = {x.bb for x in b.calls if x.target.rsplit('::', 1)[-1] in ('next', 'advance', 'next_if', 'next_if_eq', 'nth')}
            nexts |= {x.bb for x in b.calls if x.target.rsplit('::', 1)[-1] == 'peek' and x.bb != c.bb}
            ok = True
            for s0 in b.succ[c.bb]:
                seen = set()
                st = [s0]
                while st and ok:
                    x = st.pop()
                    if x in seen or x in nexts:
                        continue
                    seen.add(x)
                    if x == c.bb:
                        ok = False
                        break
                    st.extend(b.succ[x])
            if ok:
                rep.ok('R14.6', '%s: peek loop' % C.fn_key(b.path), 'progress on every path')
            else:
                rep.viol('R14.6', C.fn_key(b.path) + '|peek-loop-no-progress', 'a peek()-guarded loop can iterate without consuming: the interpreter hangs on terminating input', c.loc())
    rep.floor('R14.6', 'peek loops', n6, 3)
    # ---------------- R14.12
    rep.rule('R14.12', 'streams counted by the draining default `Stream::len` (no own `len`) stop after an error: in their `next`, every path '
             'that returns Some(Err(_)) also changes the stream\'s own state (a store to a field of self, or a call of one of its own &mut self '
             'methods) - a source such as iterate(x, f) repeats its error on every call, so a wrapper that passes the error on without '
             'latching it makes `len` (and unpacking, `only`, zip\'s length checks) loop forever')
    n12 = 0

    def _some_err(b_):
        out = []
        for bb, s_ in b_.aggregates(b_.reach):
            if s_[2][4] != 'Some':
                continue
            pay = set()
            for o in s_[2][5]:
                pay |= origins(b_, o)
            if any(o[0] == 'agg' and o[2] == 'Err' for o in pay):
                out.append(bb)
        return out
    # helpers that build the Some(Err(_)) for a stream (extracted by a refactoring): crate functions returning Option<NRes<Obj>> that are
    # not trait methods; such a helper latches through parameter k when it stores through that &mut parameter
    helpers = {}
    for p_, f_ in F.fns.items():
        if p_.startswith('<') or not F.has_fn(p_) or not re.match(r'std::option::Option<std::result::Result<core::Obj, core::NErr>>$', str(f_.get('output'))):
            continue
        hb = F.body(p_)
        if not _some_err(hb):
            continue
        ks = set()
        for bb in hb.reach:
            for s_ in hb.stmts(bb):
                if s_[0] == 'a' and len(s_[1]) >= 2 and s_[1][1] == '*' and 1 <= s_[1][0] <= hb.raw.get('argc', 0) \
                        and str((f_.get('inputs') or [])[s_[1][0] - 1]).startswith('&mut '):
                    ks.add(s_[1][0] - 1)
        helpers[p_] = ks
    rep.extra['error_exit_helpers'] = {k_: sorted(v_) for k_, v_ in helpers.items()}
    for imp in [i for i in F.impls if i['trait'] == 'core::Stream']:
        ty = imp['self_ty']
        its = [i for i in F.impls if i['trait'] == 'std::iter::Iterator' and i['self_ty'] == ty]
        nx = F.impl_fn(its[0], 'next') if its else None
        if F.impl_fn(imp, 'len') or not (nx and F.has_fn(nx)):
            continue
        nb = F.body(nx)
        base = ty.split('<')[0]
        latch = set()
        for bb in nb.reach:
            for s_ in nb.stmts(bb):
                if s_[0] == 'a' and len(s_[1]) >= 3 and s_[1][0] == 1 and s_[1][1] == '*':
                    latch.add(bb)

        def _from_self(op):
            return any(r_[0] == 'param' and r_[1] == 1 for r_ in nb.roots(op))
        for c in nb.calls:
            fn_ = F.fns.get(c.target)
            if fn_ and c.args and str((fn_.get('inputs') or [''])[0]).startswith('&mut ' + base) and _from_self(c.args[0]):
                latch.add(c.bb)
            if c.target in helpers and any(k_ < len(c.args) and _from_self(c.args[k_]) for k_ in helpers[c.target]):
                latch.add(c.bb)
        rets = {i for i in nb.reach if nb.term(i)[0] == 'ret'}
        exits = _some_err(nb) + [c.bb for c in nb.calls if c.target in helpers]
        k = 0
        for bb in exits:
            k += 1
            n12 += 1
            if bb in latch or nb.every_path_passes(0, {bb}, latch) or nb.every_path_passes(bb, rets, latch):
                rep.ok('R14.12', '%s::next error exit #%d' % (base, k), 'latched')
            else:
                rep.viol('R14.12', '%s|next|error-not-latched' % base, '%s::next can return Some(Err(_)) on a path that leaves the stream\'s state untouched: over a source that repeats its error (iterate) the inherited draining `len` never ends' % base, nb.loc(bb))
    rep.floor('R14.12', 'Some(Err) exits of streams without their own len', n12, 6)
    rep.undecided += ['termination in general', 'stack exhaustion by deep recursion (parser, evaluate, Drop of deep values)',
                      'panics inside dependencies on valid inputs', 'OOM / very long runs for legitimately huge results (10^(2^31), len of astronomically large streams)']
    return META
