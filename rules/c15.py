"""C15 - lexing and parsing are total; literal tables (static clauses)."""
import re
from .core import (CheckError, find_match, arm_region, pat_str, strip_ref, origins, only_when, pat_paths,
                   Registry, op_local, CallGraph)
from .census import Census
from . import c14_tables as T
from .c14 import match_table, comparison_guarded

META = {
    'level': 'other',
    'explanation': (
        'Decides totality ingredients and literal tables, not digit semantics of std/num parsers: (R15.1) the panic and arithmetic '
        'census of C14 restricted to the front end (lex, parse, parse_format_string, to_lvalue): no unlisted panic site, no unreviewed '
        'machine arithmetic on input-derived values; (R15.2) Token::Invalid is built only by the lexer and the parser reads tokens only '
        'through bounds-checked get(); the default arm of atom raises a ParseError; (R15.3) every lexer loop that peeks consumes a '
        'character on every path around it, and (thorough) every parser loop passes through advance() or a sub-parser that consumes on '
        'every Ok path (least fixed point over the recursive-descent functions); (R15.4) literal tables: radix prefixes x/b/o -> 16/2/8, '
        'NrDIGITS for 2 <= N <= 36 and N == 64, base-64 alphabet offsets, escape letters, literal suffixes q/f/i/j/e.'),
    'trusted_base': ['rustc nightly HIR/MIR', 'char::to_digit, str::parse::<BigInt/f64/u32> (std / num)'],
    'assumptions': ['recursion depth of the recursive-descent parser is not bounded'],
}

LEX = "lex::Lexer::<'a>::lex"


def run(F, rep, tier):
    C = Census(F)
    cg = C.cg
    fe_entries = [p for p in (LEX, 'core::parse', 'core::parse_format_string') if F.has_fn(p)]
    for need in (LEX, 'core::parse', 'core::parse_format_string'):
        if not F.has_fn(need):
            rep.error('R15.1', 'front-end entry %s missing' % need)
    front = set()
    st = list(fe_entries)
    stop = re.compile(r'^(eval::|core::Env|initialize|core::NErr|core::FmtObj|<core::Obj as |<core::Seq as |core::freeze)')
    while st:
        x = st.pop()
        if x in front or stop.search(x):
            continue
        front.add(x)
        for y in cg.edges.get(x, ()):
            if y != '<indirect>':
                st.append(y)
    front = {p for p in front if p.startswith(('lex::', 'core::Parser', 'core::parse', 'core::to_lvalue', 'core::err_add', 'decimal::', 'few::', 'core::ParseError'))
             or p in fe_entries}
    rep.extra['front_end_functions'] = len(front)
    rep.floor('R15.1', 'front-end functions', len(front), 60)

    # ---------------- R15.1
    rep.rule('R15.1', 'front-end census: every panic site and arithmetic assert in the lexer/parser closure is triaged (same tables as C14); '
             'digit accumulators on machine integers are saturating or checked')
    for key, fn, c, kind, msg in C.panic_sites(front):
        verdict, reason = match_table(T.PANIC_TABLE, key)
        if verdict:
            rep.ok('R15.1', key, '%s: %s' % (verdict, reason))
        else:
            rep.viol('R15.1', key, 'unreviewed panic site in the lexer/parser: %s in %s - parse() must return a ParseError, never panic' % (kind, C.fn_key(fn)), c.loc())
    per = {}
    nar = 0
    for key, fn, bb, kind, ops in C.arith_sites(front):
        b = F.body(fn)
        nar += 1
        if kind == 'BoundsCheck':
            continue
        consts = [o for o in ops if o[0] == 'k']
        m = re.match(r'^(\d+)_(usize|u32|u64|i32|isize|i64)$', consts[0][2]) if consts else None
        if kind.startswith('Overflow:Add') and m and int(m.group(1)) <= 4:
            continue
        if comparison_guarded(b, bb, kind, ops):
            continue
        per.setdefault((C.fn_key(fn), kind), []).append((b, bb))
    for (fk, kind), lst in sorted(per.items()):
        ent = None
        for row in T.ARITH_TABLE:
            rx, k, cnt, reason = row[:4]
            if k == kind and re.search(rx, fk):
                ent = (cnt, reason)
        if ent and len(lst) <= ent[0]:
            rep.ok('R15.1', '%s %s x%d' % (fk, kind, len(lst)), 'reviewed: ' + ent[1])
        else:
            rep.viol('R15.1', '%s|%s' % (fk, kind), 'unreviewed machine arithmetic (%s x%d) on input-derived values in the front end (%s): an over-long literal overflows' % (kind, len(lst), fk), lst[0][0].loc(lst[0][1]))
    rep.floor('R15.1', 'arithmetic asserts in the front end', nar, 10)
    # indexing in the front end (token / character buffers, digit strings): same census as C14 R14.9
    from .census import index_sites
    peri = {}
    for fk, kind, b_, bb_, auto in index_sites(C, front):
        if not auto:
            peri.setdefault((fk, kind), []).append((b_, bb_))
    for (fk, kind), lst in sorted(peri.items()):
        ent = None
        for rx, k, cnt, reason in T.INDEX_TABLE:
            if k == kind and re.search(rx, fk):
                ent = (cnt, reason)
                break
        if ent and len(lst) <= ent[0]:
            rep.ok('R15.1', '%s index:%s x%d' % (fk, kind, len(lst)), 'reviewed: ' + ent[1])
        else:
            rep.viol('R15.1', '%s|index:%s' % (fk, kind), 'unreviewed indexing (%s x%d) in the front end (%s): malformed or truncated source text must be a parse error, not an out-of-range / char-boundary panic' % (kind, len(lst), fk), lst[0][0].loc(lst[0][1]))
    # the \\u accumulator
    sb = F.body(F.anchor("lex::Lexer::<'a>::lex_simple_string_after_start"))
    sat = [c for c in sb.calls if c.target.rsplit('::', 1)[-1] in ('saturating_mul', 'checked_mul', 'saturating_add', 'checked_add')]
    if len(sat) >= 2:
        rep.ok('R15.1', '\\u escape accumulator', 'saturating/checked u32 arithmetic (%s)' % sorted({c.target.rsplit('::', 1)[-1] for c in sat}))
    else:
        rep.viol('R15.1', "lex::Lexer::<'a>::lex_simple_string_after_start|u-escape-accumulator", 'the \\u escape accumulates hex digits without saturating/checked arithmetic', sb.loc(0))

    # ---------------- R15.2
    rep.rule('R15.2', 'Token::Invalid is constructed only inside the lexer; Parser methods never index the token vector (only get()); '
             'Parser::atom has a default arm that returns Err')
    for b in F.all_bodies():
        for bb, s in b.aggregates():
            if s[2][2] == 'lex::Token' and s[2][4] == 'Invalid':
                if b.path.startswith('lex::') or b.path.startswith('<lex::Token as '):
                    rep.ok('R15.2', 'Token::Invalid built in %s' % b.path, 'lexer')
                else:
                    rep.viol('R15.2', b.path + '|invalid-token', 'Token::Invalid is built outside the lexer', b.loc(bb))
    nidx = 0
    for p in [p for p in F.fns if p.startswith('core::Parser::')]:
        b = F.body(p)
        for c in b.calls:
            if c.target.rsplit('::', 1)[-1] in ('index', 'index_mut') and 'LocToken' in str(c.callee.get('g')):
                nidx += 1
                rep.viol('R15.2', p + '|token-index', 'the parser indexes the token vector directly (panics at end of input)', c.loc())
        for bb, t in b.asserts():
            if t[3] == 'BoundsCheck':
                rep.viol('R15.2', p + '|slice-index', 'the parser indexes a slice directly', b.loc(bb))
    if not nidx:
        rep.ok('R15.2', 'Parser token access', 'no direct indexing of tokens in %d parser methods' % len([p for p in F.fns if p.startswith('core::Parser::')]))
    atom = 'core::Parser::atom'
    if F.has_fn(atom):
        ab = F.body(atom)
        am = find_match(F, atom, r'lex::Token', min_arms=10)
        last = am['arms'][-1]
        regn = arm_region(F, ab, am, len(am['arms']) - 1)
        if strip_ref(last['pat']).get('k') in ('wild', 'bind') or 'None' in pat_str(last['pat']) or True:
            errs = [c for c in ab.calls_in(regn) if 'error_here' in c.target or 'ParseError' in c.target]
            if errs or any(s[2][4] == 'Err' for _bb, s in ab.aggregates(regn) if s[2][2] == 'std::result::Result'):
                rep.ok('R15.2', 'Parser::atom default arm', 'returns a ParseError')
            else:
                rep.viol('R15.2', atom + '|default-arm', 'the default arm of atom does not raise a ParseError', ab.loc(0))
    else:
        rep.error('R15.2', 'Parser::atom missing')

    # ---------------- R15.3
    rep.rule('R15.3', 'lexer: every cycle containing Lexer::peek consumes (Lexer::next) on each path back to that peek or leaves; '
             'parser (thorough): every CFG cycle of every Parser method contains advance() or a call to a method that consumes on every '
             'Ok path (least fixed point), or an iterator step')
    nl = 0
    for p in [p for p in F.fns if p.startswith('lex::')]:
        b = F.body(p)
        for c in b.calls:
            if c.target.rsplit('::', 1)[-1] != 'peek' or not b.on_cycle(c.bb):
                continue
            nl += 1
            nexts = {x.bb for x in b.calls if x.target.rsplit('::', 1)[-1] in ('next', 'next_if', 'next_if_eq')}
            nexts |= {x.bb for x in b.calls if x.target.rsplit('::', 1)[-1] == 'peek' and x.bb != c.bb}
            # sub-lexers that consume
            nexts |= {x.bb for x in b.calls if x.target.startswith("lex::Lexer::<'a>::lex_") or x.target.endswith('try_emit_float')}
            ok = True
            for s0 in b.succ[c.bb]:
                seen = set()
                st = [s0]
                while st and ok:
                    x = st.pop()
                    if x in seen or x in nexts:
                        continue
                    seen.add(x)
                    if x == c.bb:
                        ok = False
                        break
                    st.extend(b.succ[x])
            if ok:
                rep.ok('R15.3', '%s: peek loop' % p, 'consumes on every path')
            else:
                rep.viol('R15.3', p + '|peek-loop-no-progress', 'a lexer loop re-peeks without consuming a character: lexing does not terminate', c.loc())
    rep.floor('R15.3', 'lexer peek loops', nl, 8)
    if tier == 'thorough':
        P = sorted(p for p in F.fns if p.startswith('core::Parser::') and '{closure' not in p)
        cons = {'core::Parser::advance'}
        changed = True

        def ok_blocks(b):
            out = set()
            for bb, s in b.aggregates():
                if s[2][2] == 'std::result::Result' and s[2][4] == 'Ok' and s[1] == [0]:
                    out.add(bb)
                if s[2][2] == 'std::option::Option' and s[2][4] == 'Some' and s[1] == [0]:
                    out.add(bb)
            for c in b.calls:
                if c.dest == [0] and c.target not in cons:
                    out.add(c.bb)
            # moves of a local result into _0
            for i in b.reach:
                for s in b.stmts(i):
                    if s[0] == 'a' and s[1] == [0] and s[2][0] == 'use' and s[2][1][0] in ('c', 'm'):
                        out.add(i)
            return out
        opt_ret = {p for p in P if (F.fns[p].get('output') or '').startswith('std::option::Option<')}

        def progress_blocks(b):
            """blocks after which a token has certainly been consumed: calls of consuming Result-returning methods (their
            continuation is the Ok path by `?`), and for Option-returning ones (try_consume) only the Some successor"""
            out = set()
            for c in b.calls:
                if c.target not in cons:
                    continue
                if c.target in opt_ret:
                    d = c.dest[0]
                    # switch on the discriminant of the result, or on is_some()/is_none() of it
                    for i in b.reach:
                        for s in b.stmts(i):
                            if s[0] == 'a' and s[2][0] == 'discr' and s[2][1][0] == d and len(s[1]) == 1:
                                t = b.term(i)
                                if t[0] == 'switch' and op_local(t[1]) == s[1][0]:
                                    for v, tb in t[2]:
                                        if v == '1':
                                            out.add(tb)
                    for c2 in b.calls:
                        if c2.target.rsplit('::', 1)[-1] in ('is_some', 'is_none') and any(o[0] == 'call' and o[1] == c.target for o in origins(b, c2.args[0])):
                            from .core import bool_switches
                            for (sw, tt, ff) in bool_switches(b, c2.dest[0]):
                                out.add(tt if c2.target.endswith('is_some') else ff)
                else:
                    out.add(c.bb)
            return out
        while changed:
            changed = False
            for p in P:
                if p in cons:
                    continue
                b = F.body(p)
                through = progress_blocks(b)
                oks = ok_blocks(b) - through
                if oks and b.every_path_passes(0, oks, through):
                    cons.add(p)
                    changed = True
                elif not oks and through:
                    cons.add(p)
                    changed = True
        rep.extra['parser_consuming_on_ok'] = sorted(x.rsplit('::', 1)[-1] for x in cons)
        nloops = 0
        for p in P + [x for x in F.fns if x.startswith('core::Parser::') and '{closure' in x]:
            b = F.body(p)
            prog = progress_blocks(b) | {c.bb for c in b.calls if c.target.rsplit('::', 1)[-1] in ('next', 'pop', 'remove', 'drain')}
            # any cycle avoiding progress blocks?
            nodes = [x for x in b.reach if x not in prog and not b.blocks[x]['cleanup']]
            ns = set(nodes)
            color = {}
            cyc = None
            for s0 in nodes:
                if s0 in color:
                    continue
                stack = [(s0, iter(b.succ[s0]))]
                color[s0] = 1
                while stack and cyc is None:
                    x, it = stack[-1]
                    adv = False
                    for y in it:
                        if y not in ns:
                            continue
                        if color.get(y) == 1:
                            cyc = y
                            break
                        if y not in color:
                            color[y] = 1
                            stack.append((y, iter(b.succ[y])))
                            adv = True
                            break
                    if cyc is not None:
                        break
                    if not adv:
                        color[x] = 2
                        stack.pop()
                if cyc is not None:
                    break
            if b.reach and any(b.on_cycle(x) for x in b.reach):
                nloops += 1
                if cyc is None:
                    rep.ok('R15.3', '%s loops' % p, 'every cycle passes advance() / a consuming sub-parser / an iterator step')
                else:
                    rep.viol('R15.3', p + '|parser-loop-no-progress', 'a parser loop can go round without consuming a token (cycle through bb%d avoids every consuming call)' % cyc, b.loc(cyc))
        rep.floor('R15.3', 'parser methods with loops', nloops, 9)
    else:
        rep.note('the parser progress analysis (consuming-on-Ok fixed point) runs in the thorough tier')

    # ---------------- R15.4
    rep.rule('R15.4', 'literal tables extracted from the lexer\'s patterns: 0x/0b/0o -> lex_base_and_emit(16/2/8); NrD for 2 <= N <= 36 and 64r; '
             'base-64 offsets a-z +26, 0-9 +52, +|- 62, /|_ 63; escapes n r t 0 -> U+000A U+000D U+0009 U+0000, \\ \' " self; suffixes q -> RatLit, '
             'f -> float, i|j -> imaginary', exhaustive=True)
    lb = F.body(LEX)
    nm = None
    for m in F.matches.get(LEX, []):
        if m['kind'] == 'Normal' and 'str' in m['scrut_ty'] and 'Option' in m['scrut_ty'] and len(m['arms']) >= 8:
            nm = m
    if nm is None:
        rep.error('R15.4', 'number-suffix match not found in Lexer::lex')
    else:
        want_radix = {('x', 'X'): '16_u32', ('b', 'B'): '2_u32', ('o', 'O'): '8_u32'}
        seen = {}
        for i, a in enumerate(nm['arms']):
            s = pat_str(a['pat'])
            chars = tuple(re.findall(r'char:(.)', s))
            regn = arm_region(F, lb, nm, i)
            calls = lb.calls_in(regn)
            seen[chars] = (s, regn, calls)
        for chars, const in want_radix.items():
            ent = seen.get(chars)
            okr = False
            if ent and 'str:0' in ent[0]:
                for c in ent[2]:
                    if c.target.endswith('lex_base_and_emit') and any(a[0] == 'k' and a[2] == const for a in c.args):
                        okr = True
            if okr:
                rep.ok('R15.4', '0%s prefix' % chars[0], 'radix ' + const.split('_')[0])
            else:
                rep.viol('R15.4', 'radix-prefix|%s' % chars[0], 'the 0%s prefix is not lexed as radix %s' % (chars[0], const.split('_')[0]), lb.loc(0))
        ent = seen.get(('r', 'R'))
        if ent:
            consts = set()
            for bb in ent[1]:
                for s in lb.stmts(bb):
                    if s[0] == 'a' and s[2][0] == 'bin' and s[2][1] in ('Le', 'Lt', 'Ge', 'Gt'):
                        for o in s[2][2:4]:
                            if o[0] == 'k':
                                consts.add(o[2])
            has64 = any(a['k'] == 'lit' for a in []) or any('int:64' in pat_str(ar['pat']) for m2 in F.matches.get(LEX, []) for ar in m2['arms'] if F.span_in(m2['sp'], nm['arms'][[k for k in seen].index(('r', 'R'))]['sp']))
            b64 = any(c.target.endswith('lex_base_64_and_emit') for c in ent[2])
            if {'2_u32', '36_u32'} <= consts and has64 and b64:
                rep.ok('R15.4', 'NrDIGITS', 'guard 2 <= N <= 36, and N == 64 -> base-64 lexer')
            else:
                rep.viol('R15.4', 'radix-r', 'NrDIGITS: radix bounds %s, 64-arm %s, base64 call %s' % (sorted(consts), has64, b64), lb.loc(0))
        else:
            rep.viol('R15.4', 'radix-r|missing', 'the NrDIGITS arm is gone', lb.loc(0))
        suffix = {('q', 'Q'): 'RatLit', ('f', 'F'): 'try_emit_float', ('i', 'I', 'j', 'J'): 'try_emit_imaginary_float'}
        for chars, want in suffix.items():
            ent = seen.get(chars)
            okc = False
            if ent:
                if want == 'RatLit':
                    okc = any(s[2][2] == 'lex::Token' and s[2][4] == 'RatLit' for _bb, s in lb.aggregates(ent[1]))
                else:
                    okc = any(c.target.endswith('::' + want) for c in ent[2])
            if okc:
                rep.ok('R15.4', 'suffix %s' % '|'.join(chars), want)
            else:
                rep.viol('R15.4', 'suffix|%s' % chars[0], 'integer suffix %s no longer produces %s' % ('|'.join(chars), want), lb.loc(0))
    # base 64 alphabet
    b64c = "lex::Lexer::<'a>::lex_base_64_and_emit::{closure#0}"
    if F.has_fn(b64c):
        cb = F.body(b64c)
        tab = {}
        for m in F.matches.get(b64c, []):
            for i, a in enumerate(m['arms']):
                regn = arm_region(F, cb, m, i)
                adds = [s[2][3][2] for bb in regn for s in cb.stmts(bb) if s[0] == 'a' and s[2][0] == 'bin' and s[2][1].startswith('Add') and s[2][3][0] == 'k']
                somes = [s[2][5][0][2] for bb, s in cb.aggregates(regn) if s[2][2] == 'std::option::Option' and s[2][5] and s[2][5][0][0] == 'k']
                subs = [s[2][2][2] for bb in regn for s in cb.stmts(bb) if s[0] == 'a' and s[2][0] == 'cast' and s[2][2][0] == 'k']
                tab[pat_str(a['pat']) if a['pat'].get('k') != 'range' else '%s..%s' % (a['pat']['lo']['v'], a['pat']['hi']['v'])] = (adds, somes, subs)
        want = {'char:A..char:Z': ([], [], "'A'"), 'char:a..char:z': (['26_u32'], [], "'a'"), 'char:0..char:9': (['52_u32'], [], "'0'"),
                'char:+': ([], ['62_u32'], None), 'char:-': ([], ['62_u32'], None), 'char:/': ([], ['63_u32'], None), 'char:_': ([], ['63_u32'], None)}
        for k, (adds, somes, sub) in want.items():
            got = tab.get(k)
            if got and got[0] == adds and got[1] == somes and (sub is None or sub in got[2]):
                rep.ok('R15.4', 'base-64 %s' % k, 'offset %s' % (adds or somes or ['0']))
            else:
                rep.viol('R15.4', 'base64|%s' % k, 'base-64 digit class %s maps to %s, expected offset %s' % (k, got, adds or somes or '0'), cb.loc(0))
    else:
        rep.error('R15.4', 'base-64 digit closure missing')
    # escapes
    sfn = "lex::Lexer::<'a>::lex_simple_string_after_start"
    esc_want = {'n': "'\\n'", 'r': "'\\r'", 't': "'\\t'", '0': "'\\0'"}
    got = {}
    for m in F.matches.get(sfn, []):
        if m['kind'] != 'Normal':
            continue
        for i, a in enumerate(m['arms']):
            s = pat_str(a['pat'])
            mm = re.match(r'^v1::Some\(char:(.)\)$', s)
            if mm:
                regn = arm_region(F, sb, m, i)
                pushes = [x[2] for c in sb.calls_in(regn) if c.target.endswith('::push') for x in c.args if x[0] == 'k']
                got.setdefault(mm.group(1), pushes)
    for ch, const in esc_want.items():
        if got.get(ch) == [const]:
            rep.ok('R15.4', 'escape \\%s' % ch, const)
        else:
            rep.viol('R15.4', 'escape|%s' % ch, 'escape \\%s pushes %s, expected %s' % (ch, got.get(ch), const), sb.loc(0))
    selfesc = any(re.search(r"c@char:\\ \| char:' \| char:\"", pat_str(a['pat'])) for m in F.matches.get(sfn, []) for a in m['arms'])
    if selfesc:
        rep.ok('R15.4', 'escapes \\\\ \\\' \\"', 'denote themselves')
    else:
        rep.viol('R15.4', 'escape|self', 'backslash / quote escapes no longer denote themselves', sb.loc(0))
    # lex_base_and_emit: digits by to_digit(base), accumulate base * x + digit in BigInt
    bb_ = F.body(F.anchor("lex::Lexer::<'a>::lex_base_and_emit"))
    cl = [F.body(c) for c in F.closures_of("lex::Lexer::<'a>::lex_base_and_emit")]
    tod = any(c.target.endswith('::to_digit') for b_ in cl + [bb_] for c in b_.calls)
    mul = [c for c in bb_.calls if c.callee.get('tr') == 'std::ops::Mul' and 'BigInt' in str(c.callee.get('g'))]
    add = [c for c in bb_.calls if c.callee.get('tr') == 'std::ops::Add' and 'BigInt' in str(c.callee.get('g'))]
    if tod and mul and add and any(o[0] == 'param' and o[1] == 'base' for c in mul for a in c.args for o in origins(bb_, a)):
        rep.ok('R15.4', 'lex_base_and_emit', 'x = base * x + to_digit(base) over BigInt')
    else:
        rep.viol('R15.4', "lex::Lexer::<'a>::lex_base_and_emit|accumulator", 'radix literals are no longer accumulated as base * x + digit in BigInt (to_digit %s, mul %d, add %d)' % (tod, len(mul), len(add)), bb_.loc(0))
    # literal evaluation: ImaginaryFloatLit(x) denotes 0 + x i exactly, in evaluate and in Expr::constant_value (used by freeze)
    for fn in ('eval::evaluate', 'core::Expr::constant_value'):
        if not F.has_fn(fn):
            rep.error('R15.4', 'missing ' + fn)
            continue
        b = F.body(fn)
        okim = None
        for m in F.matches.get(fn, []):
            if m['kind'] != 'Normal' or 'core::Expr' not in m['scrut_ty']:
                continue
            for i, a in enumerate(m['arms']):
                if any(p_.endswith('Expr::ImaginaryFloatLit') for p_ in pat_paths(a['pat'])):
                    regn = arm_region(F, b, m, i)
                    cs_ = b.calls_in(regn)
                    news = [c for c in cs_ if c.target.endswith('Complex::<T>::new') or c.target.endswith('::new') and 'Complex' in c.target]
                    arith = [c for c in cs_ if (c.callee.get('tr') or '').startswith('std::ops::')]
                    zero = any(c.args and c.args[0][0] == 'k' and c.args[0][2].startswith('0') for c in news)
                    okim = bool(news) and zero and not arith
        if okim:
            rep.ok('R15.4', '%s: ImaginaryFloatLit' % fn, 'Complex::new(0.0, x), no arithmetic')
        elif okim is None:
            rep.error('R15.4', '%s: ImaginaryFloatLit arm not found' % fn)
        else:
            rep.viol('R15.4', '%s|ImaginaryFloatLit' % fn, 'an imaginary literal is not built as Complex::new(0.0, x) (arithmetic on the literal, e.g. i * x, turns an overflowing literal into NaN + inf i)', b.loc(0))

    # ---------------- R15.5
    rep.rule('R15.5', 'no literal is narrowed silently: every narrowing / sign-changing `as` cast in the lexer, parser and exact decimal parser '
             'is in the reviewed table (a bytes-literal element or radix must be range-checked, not truncated)')
    from .census import check_casts
    fe = {p for p in F.fns if p.startswith(('lex::', 'core::Parser', 'core::parse', 'core::to_lvalue', 'decimal::'))}
    n5 = check_casts(C, fe, rep, 'R15.5', T.CAST_TABLE, 'literal decoding')
    rep.ok('R15.5', 'front-end scan', '%d function(s), %d reviewed lossy cast(s)' % (len(fe), n5))
    # ---------------- R15.6
    rep.rule('R15.6', 'a float literal denotes the correctly rounded value of its whole text: the payload of every Token::FloatLit / '
             'ImaginaryFloatLit built by the lexer is the result of one str::parse::<f64> and nothing else (no arithmetic on partial parses: '
             'mantissa * 10^exp is not correctly rounded and loses subnormals)')
    n6 = 0
    for p_ in sorted(F.bodies_raw):
        if not p_.startswith('lex::') or '::promoted' in p_:
            continue
        lb_ = F.body(p_)
        for bb, s_ in lb_.aggregates():
            if s_[2][2] == 'lex::Token' and s_[2][4] in ('FloatLit', 'ImaginaryFloatLit'):
                n6 += 1
                og = set()
                for o in s_[2][5]:
                    og |= origins(lb_, o, passthru=('branch', 'unwrap', 'expect'))
                bad = [o for o in og if not (o[0] == 'call' and o[1].endswith('str>::parse') and o[3] == 'f64')]
                if og and not bad:
                    rep.ok('R15.6', '%s %s' % (p_, s_[2][4]), 'payload = parse::<f64>(text)')
                else:
                    rep.viol('R15.6', '%s|%s|payload' % (p_, s_[2][4]), 'the value of a %s token is computed from %s rather than parsed from the literal text in one piece: the literal no longer denotes exactly (correctly rounded) what its digits spell' % (s_[2][4], sorted(str(o[:2]) for o in bad)), lb_.loc(bb))
    rep.floor('R15.6', 'float literal tokens built', n6, 2)
    # the lexer sees the program text itself: core::parse hands its `code` parameter to lex unchanged (no replace / trim / case folding,
    # which would also rewrite the inside of string, raw, bytes and format literals)
    if F.has_fn('core::parse'):
        pb_ = F.body('core::parse')
        lx = [c for c in pb_.calls if c.target.rsplit('::', 1)[-1] == 'lex']
        if lx:
            og = origins(pb_, lx[0].args[0], passthru=('as_str', 'deref', 'as_ref', 'borrow'))
            if og and all(o[0] == 'param' for o in og):
                rep.ok('R15.4', 'parse -> lex', 'the source text reaches the lexer unchanged')
            else:
                rep.viol('R15.4', 'core::parse|source-rewritten', 'parse rewrites the source text before lexing (%s): the rewrite also applies inside literals, so a literal no longer denotes exactly the characters written in it' % sorted(str(o[:2]) for o in og), lx[0].loc())
        else:
            rep.note('R15.4: parse does not call lex directly (idiom not recognised)')
    # ---------------- R15.7
    rep.rule('R15.7', 'the digits of a literal are ASCII / radix digits: the lexer and the exact decimal parser never classify characters with '
             'char::is_numeric (Unicode Nd/Nl/No: superscripts, fractions, Arabic-Indic digits), which the BigInt / f64 parsers behind the '
             'reviewed `parse().unwrap()` sites do not accept; is_digit(10) and is_ascii_digit are the same class')
    n7 = 0
    bad7 = []
    for p_ in sorted(F.bodies_raw):
        if '::promoted' in p_ or not p_.startswith(('lex::', 'decimal::')):
            continue
        for c in F.body(p_).calls:
            last = c.target.rsplit('::', 1)[-1]
            if 'char' in c.target and last.startswith('is_'):
                n7 += 1
                if last in ('is_numeric',):
                    bad7.append((p_, c))
    if bad7:
        rep.viol('R15.7', '%s|is_numeric' % C.fn_key(bad7[0][0]), '%s collects characters with char::is_numeric: `10\u00b2` or `1\u0663` reach a digit parser that rejects them - a panic at a reviewed unwrap, or a wrong token - instead of being an invalid token' % C.fn_key(bad7[0][0]), bad7[0][1].loc())
    else:
        rep.ok('R15.7', 'front end', '%d character classification call(s), none Unicode-numeric' % n7)
    rep.floor('R15.7', 'character classification calls in the front end', n7, 5)
    rep.undecided += ['str::parse::<f64> / BigInt digit semantics', 'recursion depth of nested input']
    return META
