"""Shared analysis of the Expr::OpAssign arm of evaluate (used by C01, C02, C04)."""
from .core import find_match, arm_region, pat_paths, origins, CheckError


def opassign_facts(F):
    evaluate = F.anchor('eval::evaluate')
    eb = F.body(evaluate)
    me = find_match(F, evaluate, r'core::Expr\b', min_arms=30)
    arm = None
    for i, a in enumerate(me['arms']):
        if any(p == 'core::Expr::OpAssign' for p in pat_paths(a['pat'])):
            arm = i
    if arm is None:
        raise CheckError('anchor missing: Expr::OpAssign arm of evaluate')
    regn = arm_region(F, eb, me, arm)
    cs = eb.calls_in(regn)
    return {
        'evaluate': evaluate, 'body': eb, 'region': regn, 'calls': cs,
        'run2': [c for c in cs if c.target.rsplit('::', 1)[-1] == 'run2'],
        'drop_lhs': [c for c in cs if c.target == 'eval::drop_lhs'],
        'read_old': [c for c in cs if c.target == 'eval::eval_lvalue_as_obj'],
        'assign': [c for c in cs if c.target == 'eval::assign'],
        'evaluate_calls': [c for c in cs if c.target == evaluate],
        'eval_seq': [c for c in cs if c.target == 'eval::eval_seq'],
        'modify_every': [c for c in cs if c.target == 'eval::modify_every'],
        'closures': [s[2][2] for _bb, s in eb.aggregates(regn) if s[2][1] == 'closure'],
    }
