"""Shared analysis of the Expr::OpAssign arm of evaluate (used by C01, C02, C04)."""
from .core import find_match, arm_region, pat_paths, origins, CheckError


def opassign_facts(F):
    evaluate = F.anchor('eval::evaluate')
    eb = F.body(evaluate)
    me = find_match(F, evaluate, r'core::Expr\b', min_arms=30)
    arm = None
    for i, a in enumerate(me['arms']):
        if any(p == 'core::Expr::OpAssign' for p in pat_paths(a['pat'])):
            arm = i
    if arm is None:
        raise CheckError('anchor missing: Expr::OpAssign arm of evaluate')
    regn = arm_region(F, eb, me, arm)
    cs = eb.calls_in(regn)
    return {
        'evaluate': evaluate, 'body': eb, 'region': regn, 'calls': cs,
        'run2': [c for c in cs if c.target.rsplit('::', 1)[-1] == 'run2'],
        'drop_lhs': [c for c in cs if c.target == 'eval::drop_lhs'],
        'read_old': [c for c in cs if c.target == 'eval::eval_lvalue_as_obj'],
        'assign': [c for c in cs if c.target == 'eval::assign'],
        'evaluate_calls': [c for c in cs if c.target == evaluate],
        'eval_seq': [c for c in cs if c.target == 'eval::eval_seq'],
        'modify_every': [c for c in cs if c.target == 'eval::modify_every'],
        'closures': [s[2][2] for _bb, s in eb.aggregates(regn) if s[2][1] == 'closure'],
    }


def order_rule(F, rep, rid):
    """Every direct run2 site of Expr::OpAssign: first operand = value read from the lvalue; every evaluation that feeds the second
    operand is dominated by that read; drop_lhs lies between the rhs evaluation and run2; the result is assigned."""
    oa = opassign_facts(F)
    eb = oa['body']
    n = 0
    for r in oa['run2']:
        n += 1
        rhs_roots = {(ro[1], ro[2]) for ro in eb.roots(r.args[3], through_calls=(r'::take$', r'::replace$')) if ro[0] == 'call'}
        old_roots = {(ro[1], ro[2]) for ro in eb.roots(r.args[2]) if ro[0] == 'call'}
        if not any('eval_lvalue_as_obj' in t or 'collect' in t or 'next' in t for t, _bb in old_roots):
            rep.viol(rid, 'OpAssign|run2|first-operand', 'run2\'s first operand is not the value read from the lvalue (%s)' % sorted(old_roots), r.loc())
            continue
        bad = False
        for (t, bbx) in rhs_roots:
            if t in (oa['evaluate'], 'eval::eval_seq'):
                for (t2, bby) in old_roots:
                    if t2 == 'eval::eval_lvalue_as_obj' and not eb.dominates(bby, bbx):
                        bad = True
        drops = [c for c in oa['drop_lhs'] if eb.dominates(c.bb, r.bb)]
        if bad:
            rep.viol(rid, 'OpAssign|run2|rhs-before-read', 'the right-hand side of an op-assign is evaluated before the old value of the target is read: `x f= (x = ..; v)` observes the assignment made by its own right-hand side', r.loc())
        elif not drops:
            rep.viol(rid, 'OpAssign|run2|no-drop', 'run2 is reached without drop_lhs: the operator receives a shared handle', r.loc())
        elif any(t in (oa['evaluate'], 'eval::eval_seq') and any(eb.dominates(d.bb, bbx) for d in drops) for (t, bbx) in rhs_roots):
            rep.viol(rid, 'OpAssign|run2|rhs-after-drop', 'the right-hand side is evaluated after the slot was nulled: `x f= g(x)` would see null', r.loc())
        else:
            rep.ok(rid, 'op-assign at %s' % r.loc(), 'read old value -> evaluate rhs -> drop_lhs -> run2(old, rhs)')
    rep.floor(rid, 'direct run2 sites in OpAssign', n, 2)
    return oa
