"""Which fields of `self` a Stream implementation's `next` advances, and which fields an observing override reads.

writes(next)  under-approximated: direct assignments to (*self).fK..., assignments through / calls receiving a `&mut` alias of
              (*self).fK (pattern bindings that are never used mutably do not count)
reads(method) over-approximated: every mention of (*self).fK, and a use of *self as a whole (passed to a call, cloned) = all fields
"""


def _field(place, root=1):
    if place and place[0] == root:
        for pr in place[1:]:
            if isinstance(pr, str) and pr.startswith('f'):
                return pr
    return None


def next_writes(b):
    alias = {}      # local -> field of self it mutably aliases
    changed = True
    while changed:
        changed = False
        for bb in b.reach:
            for s in b.stmts(bb):
                if s[0] != 'a' or len(s[1]) != 1:
                    continue
                L = s[1][0]
                rv = s[2]
                f = None
                if rv[0] == 'ref' and rv[1] == 'mut':
                    f = _field(rv[2]) or (alias.get(rv[2][0]) if rv[2] and rv[2][0] != 1 else None)
                elif rv[0] == 'use' and rv[1][0] in ('m', 'c') and len(rv[1][1]) == 1:
                    f = alias.get(rv[1][1][0])
                if f and alias.get(L) != f:
                    alias[L] = f
                    changed = True
    w = set()
    for bb in b.reach:
        for s in b.stmts(bb):
            if s[0] != 'a':
                continue
            d = s[1]
            f = _field(d)
            if f:
                w.add(f)
            elif d and d[0] in alias and '*' in d[1:]:
                w.add(alias[d[0]])
        t = b.term(bb)
        if t[0] == 'call':
            for a in t[2]:
                if a[0] in ('m', 'c') and len(a[1]) == 1 and a[1][0] in alias:
                    w.add(alias[a[1][0]])
            dest = t[3]
            f = _field(dest) if dest else None
            if f:
                w.add(f)
            elif dest and dest[0] in alias and '*' in dest[1:]:
                w.add(alias[dest[0]])
    return w


def reads(b, all_fields, per_block=False):
    r = set()
    whole = [False]
    byblock = {}
    cur = [None]
    self_alias = {1}
    # copies of the self pointer
    changed = True
    while changed:
        changed = False
        for bb in b.reach:
            for s in b.stmts(bb):
                if s[0] == 'a' and len(s[1]) == 1 and s[1][0] not in self_alias:
                    rv = s[2]
                    if rv[0] == 'use' and rv[1][0] in ('m', 'c') and len(rv[1][1]) == 1 and rv[1][1][0] in self_alias:
                        self_alias.add(s[1][0])
                        changed = True
                    elif rv[0] == 'ref' and rv[2] and rv[2][0] in self_alias and rv[2][1:] == ['*']:
                        self_alias.add(s[1][0])
                        changed = True

    def place(p):
        if not p or p[0] not in self_alias:
            return
        f = None
        for pr in p[1:]:
            if isinstance(pr, str) and pr.startswith('f'):
                f = pr
                break
        if f:
            r.add(f)
            byblock.setdefault(cur[0], set()).add(f)

    def walk(x):
        if isinstance(x, list):
            if len(x) >= 2 and x[0] in ('c', 'm') and isinstance(x[1], list):
                place(x[1])
            elif x and x[0] == 'ref' and len(x) > 2:
                place(x[2])
            elif x and x[0] in ('discr', 'len') and len(x) > 1 and isinstance(x[1], list):
                place(x[1])
            else:
                for y in x:
                    walk(y)

    for bb in b.reach:
        cur[0] = bb
        for s in b.stmts(bb):
            if s[0] == 'a':
                walk(s[2])
        t = b.term(bb)
        if t[0] == 'call':
            for a in t[2]:
                if a[0] in ('m', 'c'):
                    if len(a[1]) == 1 and a[1][0] in self_alias:
                        whole[0] = True
                        byblock.setdefault(bb, set()).update(all_fields)
                    place(a[1])
        elif t[0] == 'switch':
            walk([t[1]])
    if per_block:
        return byblock
    if whole[0]:
        return set(all_fields), True
    return r, False


def cursor_free_paths(b, all_fields, cursor):
    """(R, V) pairs: a block R reading a non-cursor field and a block V producing a non-constant result such that
    entry -> R -> V exists without passing a block that reads a cursor field"""
    byb = reads(b, all_fields, per_block=True)
    C = {bb for bb, fs in byb.items() if fs & cursor}
    Rs = [bb for bb, fs in byb.items() if (fs - cursor) and bb not in C]
    V = []
    for bb in b.reach:
        for s in b.stmts(bb):
            if s[0] == 'a' and s[1] == [0]:
                rv = s[2]
                if rv[0] == 'agg' and rv[1] == 'adt' and rv[4] in ('None', 'Err'):
                    continue
                V.append(bb)
        t = b.term(bb)
        if t[0] == 'call' and t[3] == [0]:
            tgt = t[1].get('d') or ''
            if 'from_residual' in tgt or tgt.endswith('_error'):
                continue
            # the result block is the call's target
            V.append(bb)

    def reach_avoiding(src):
        seen = set()
        st = [src]
        while st:
            x = st.pop()
            if x in seen or x in C:
                continue
            seen.add(x)
            st.extend(b.succ[x])
        return seen
    from_entry = reach_avoiding(0)
    out = []
    for r in Rs:
        if r not in from_entry:
            continue
        fr = reach_avoiding(r)
        for v in V:
            if v in fr and v not in C:
                out.append((r, v))
                break
    return out


def range_reversed_rule(F, rep, rid):
    """A `reversed` override of streams::Range, if there is one: the first element of the reversed range is
    start + (len - 1) * step, which needs a division (or a length) unless the step is +-1. A new Range whose start is computed
    from the bounds and the step by additions / subtractions / negations alone (`end - step`) is wrong for every range whose
    span is not a multiple of the step. Zero instances on a tree without the override (the default forces and reverses)."""
    import re
    rep.rule(rid, 'a `reversed` override of Range (none exists on the reviewed tree: the default forces the stream and reverses the list) '
             'may build a new Range only with a first element derived through a division, remainder or length - `end - step` is the last '
             'element only when the span is a multiple of the step')
    n = 0
    for imp in F.impls:
        if imp['trait'] != 'core::Stream' or not imp['self_ty'].startswith('streams::Range'):
            continue
        fn = F.impl_fn(imp, 'reversed')
        if not fn or not F.has_fn(fn):
            continue
        bodies = [F.body(fn)] + [F.body(c) for c in F.closures_of(fn)]
        for b in bodies:
            for bb, s_ in b.aggregates(b.reach):
                if s_[2][1] != 'adt' or not str(s_[2][2]).startswith('streams::Range') or not s_[2][5]:
                    continue
                n += 1
                rts = b.roots(s_[2][5][0], through_calls=('sub', 'add', 'neg', 'clone', 'mul', 'from', 'into', 'deref', 'borrow', 'as_ref', 'to_owned'))
                divs = [r_ for r_ in rts if (r_[0] == 'call' and re.search(r'::(div|div_floor|rem|mod_floor|div_rem|div_mod_floor|len|checked_div|checked_rem|rem_euclid|div_euclid)$', r_[1]))
                        or (r_[0] == 'bin' and r_[1] in ('Div', 'Rem'))]
                if divs:
                    rep.ok(rid, '%s: new Range' % b.path, 'first element derived through %s' % divs[0][1])
                else:
                    rep.viol(rid, 'streams::Range|reversed|first-element-without-division', 'Range::reversed builds a new Range whose first element is computed from the bounds and the step without a division or a length: for `1 til 9 by 3` it starts at 6 instead of 7', b.loc(bb))
    if n == 0:
        rep.ok(rid, 'streams::Range', 'no `reversed` override builds a Range (default: force and reverse)')
