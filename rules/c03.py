"""C03 - infix chains: tie-break table, shunting shape of the chain evaluator, chain compatibility table."""
import re
import itertools
from .core import (CheckError, find_match, arm_region, pat_str, strip_ref, origins, only_when, pat_paths,
                   Registry, op_local, bool_switches)

META = {
    'level': 'other',
    'explanation': (
        'Decides the ingredients from which operator-precedence grouping follows, not the grouping theorem itself: (R3.1) the '
        'exhaustive 4x2 decision table of Precedence::tighter_than_when_before extracted from MIR by enumerating discriminant paths '
        '(partial_cmp result x associativity of the left operator), with self/other operand roles; (R3.2) the reduce predicate is '
        'asked of (top of the pending stack, incoming precedence); (R3.3) the shunting shape of ChainEvaluator::give/finish: pop, '
        'try_chain and run_top_popped happen only on the reduce (predicate true) path, a merge keeps the popped precedence and returns, '
        'the incoming operator is pushed with its own precedence after the loop, operands are appended left to right; (R3.4) the '
        'pattern evaluator has the same skeleton and both drivers feed give() in source order; (R3.5) each operator and operand '
        'expression is evaluated once, left to right; (R3.6) the who-chains-with-whom table of every try_chain override; (R3.7) '
        'precedence is a field of the function value and the "precedence" assignment writes it.'),
    'trusted_base': ['rustc nightly HIR/MIR', 'classical stack invariant of operator-precedence parsing (paper argument in DESIGN.md)'],
    'assumptions': ['behaviour of the individual chainable builtins on their n-ary argument lists is not decided'],
}


def enumerate_bool_table(b, choices):
    """Enumerate discriminant paths of a small function. `choices`: list of (place-key, {switch value: label}).
    place-key is a tuple identifying the place whose discriminant is read. Returns {labels tuple: set(result consts)} and
    a list of problems (switch on something not in choices)."""
    # map local -> place-key via `_x = discriminant(place)`
    dloc = {}
    for i in b.reach:
        for s in b.stmts(i):
            if s[0] == 'a' and s[2][0] == 'discr' and len(s[1]) == 1:
                dloc[s[1][0]] = tuple(str(x) for x in s[2][1])
    problems = []
    results = {}
    keys = [k for k, _ in choices]
    for combo in itertools.product(*[list(v.items()) for _k, v in choices]):
        env = {k: val for k, (val, _lab) in zip(keys, combo)}
        labs = tuple(lab for (_v, lab) in combo)
        bb = 0
        steps = 0
        res = set()
        lastconst = {}
        while steps < 200:
            steps += 1
            for s in b.stmts(bb):
                if s[0] == 'a' and s[2][0] == 'use' and s[2][1][0] == 'k' and len(s[1]) == 1:
                    lastconst[s[1][0]] = s[2][1][2]
                elif s[0] == 'a' and s[2][0] == 'use' and len(s[1]) == 1 and op_local(s[2][1]) in lastconst:
                    lastconst[s[1][0]] = lastconst[op_local(s[2][1])]
            t = b.term(bb)
            if t[0] == 'ret':
                res.add(lastconst.get(0, '?'))
                break
            if t[0] == 'switch':
                l = op_local(t[1])
                pk = dloc.get(l)
                if pk is None or pk not in env:
                    problems.append('switch in bb%d on %s which is not an enumerated discriminant' % (bb, pk))
                    break
                v = env[pk]
                tgt = None
                for vv, tb in t[2]:
                    if vv == v:
                        tgt = tb
                bb = tgt if tgt is not None else t[3]
                continue
            sc = b.succ[bb]
            if len(sc) != 1:
                problems.append('unexpected terminator %s in bb%d' % (t[0], bb))
                break
            bb = sc[0]
        results[labs] = res
    return results, problems


def run(F, rep, tier):
    reg = Registry(F)
    # ---------------- R3.1
    rep.rule('R3.1', 'tighter_than_when_before(self, other): partial_cmp(self.0, other.0) Greater -> true, Less -> false, Equal or '
             'None (NaN) -> true iff self.1 is Left; all 16 rows (ordering x both associativities) obtained by evaluating the MIR on the finite abstract input domain', exhaustive=True)
    tf = F.anchor('core::Precedence::tighter_than_when_before', ['&core::Precedence', '&core::Precedence'], 'bool')
    tb = F.body(tf)
    from .minieval import Evaluator, Cell, Unsupported
    # the function is evaluated (MIR, block by block) on the whole finite input domain: ordering of self.0 vs other.0 in
    # {Less, Equal, Greater, unordered(NaN)} x self.1 x other.1 - 16 inputs, whatever shape the source has
    want_fn = lambda o, a1: True if o == 'Greater' else (False if o == 'Less' else a1 == 0)
    unsupported = None
    for o in ('Less', 'Equal', 'Greater', None):
        for a1 in (0, 1):
            for a2 in (0, 1):
                def order(x, y, o=o):
                    if x == y:
                        return None if o is None else 'Equal'
                    if (x, y) == ('self.0', 'other.0'):
                        return o
                    return {'Less': 'Greater', 'Greater': 'Less'}.get(o, o)        # asked the other way round
                label = '%s / self %s / other %s' % (o or 'unordered(NaN)', ('Left', 'Right')[a1], ('Left', 'Right')[a2])
                w = want_fn(o, a1)
                got = None
                # library calls whose result is not determined by the abstract ordering (f64::total_cmp on equal or
                # unordered operands) are enumerated: the row must come out right for every outcome
                pending = [[]]
                tried = 0
                try:
                    while pending and tried < 30:
                        nd = pending.pop()
                        tried += 1
                        ev = Evaluator(tb, order)
                        ev.nd = nd
                        me = ('ref', Cell(('adt', 'Precedence', 0, [('sym', 'self.0'), ('adt', 'Assoc', a1, [])])))
                        ot = ('ref', Cell(('adt', 'Precedence', 0, [('sym', 'other.0'), ('adt', 'Assoc', a2, [])])))
                        r_ = ev.run([me, ot])
                        if ev.nd_asked > len(nd):
                            for pick in ('Less', 'Equal', 'Greater'):
                                pending.append(nd + [pick])
                            continue
                        if got is None or r_ != ('bool', w):
                            got = r_
                        if r_ != ('bool', w):
                            break
                except Unsupported as e:
                    unsupported = str(e)
                    break
                if got == ('bool', w):
                    rep.ok('R3.1', 'row ' + label, str(w).lower())
                else:
                    rep.viol('R3.1', tf + '|row|%s / %s' % (o or 'None(NaN)', ('Left', 'Right')[a1]), 'with self.0 %s other.0, a %s-associative operator on the stack and a %s-associative incoming one, tighter_than_when_before yields %s, expected %s' % ({'Less': '<', 'Equal': '==', 'Greater': '>', None: 'unordered with'}[o], ('left', 'right')[a1], ('left', 'right')[a2], got, w), tb.loc(0))
            if unsupported:
                break
        if unsupported:
            break
    if unsupported:
        rep.error('R3.1', 'tighter_than_when_before is outside the evaluable fragment (%s): its decision table cannot be read off' % unsupported)

    # ---------------- R3.2 / R3.3
    rep.rule('R3.2', 'the reduce predicate in ChainEvaluator::give is pending.last().map_or(false, |t| t.2.tighter_than_when_before(&precedence)): '
             'receiver = precedence of the stack top, argument = the incoming precedence, default false')
    rep.rule('R3.3', 'give: pending.pop, try_chain(&operator) and run_top_popped are reachable only when the predicate is true; a successful '
             'merge pushes the popped precedence and returns; after the loop the incoming (operator, precedence) is pushed; finish runs the '
             'stack until empty; run_top_popped appends rightmost last and runs the operator once')
    for ev in ('eval::ChainEvaluator', 'eval::LvalueChainEvaluator'):
        give = ev + '::give'
        if not F.has_fn(give):
            rep.error('R3.3', 'missing ' + give)
            continue
        gb = F.body(give)
        pred_closures = [cl for cl in F.closures_of(give) if any(c.target == tf for c in F.body(cl).calls)]
        if len(pred_closures) != 1:
            rep.viol('R3.2', give + '|predicate', 'expected exactly one closure calling tighter_than_when_before in %s, found %d' % (give, len(pred_closures)), gb.loc(0))
            continue
        pc = F.body(pred_closures[0])
        call = [c for c in pc.calls if c.target == tf][0]
        recv = origins(pc, call.args[0])
        arg = origins(pc, call.args[1])
        recv_ok = all(o[0] == 'param' and o[1] in ('t', '_2') for o in recv) and bool(recv)
        # receiver must be field 2 of the tuple
        f2 = False
        for (bb, j, kind, s) in pc.defs().get(op_local(call.args[0]), []):
            if kind == 'a' and s[2][0] == 'ref' and any(str(p).startswith('f2') for p in s[2][2][1:]):
                f2 = True
        arg_ok = all(o[0] == 'param' and o[1] in ('_1',) for o in arg) and bool(arg)
        if recv_ok and f2 and arg_ok:
            rep.ok('R3.2', '%s predicate operands' % ev, 'top.2.tighter_than_when_before(&precedence)')
        else:
            rep.viol('R3.2', give + '|operand-roles', 'the reduce predicate does not compare (stack top precedence).tighter_than_when_before(incoming precedence): receiver %s field2=%s, argument %s' % (sorted(map(str, recv)), f2, sorted(map(str, arg))), call.loc())
        mo = [c for c in gb.calls if c.target.rsplit('::', 1)[-1] in ('map_or', 'is_some_and', 'map_or_else') and any(
            r[0] == 'agg' and r[2] == pred_closures[0] for a in c.args for r in gb.roots(a))]
        lasts = [c for c in gb.calls if c.target.endswith('::last')]
        if len(mo) != 1 or not lasts:
            rep.viol('R3.2', give + '|predicate-call', 'predicate is not pending.last().map_or(false, closure)', gb.loc(0))
            continue
        m0 = mo[0]
        if m0.target.endswith('map_or'):
            d = m0.args[1]
            if d[0] == 'k' and d[2] == 'false':
                rep.ok('R3.2', '%s empty stack' % ev, 'map_or(false, ..): nothing to reduce on an empty stack')
            else:
                rep.viol('R3.2', give + '|default', 'the predicate default for an empty stack is not false', m0.loc())
        if not gb.on_cycle(m0.bb):
            rep.viol('R3.3', give + '|no-loop', 'the reduce predicate is not evaluated in a loop', m0.loc())
        pops = [c for c in gb.calls if c.target.endswith('::pop')]
        tcs = [c for c in gb.calls if c.target.rsplit('::', 1)[-1] == 'try_chain']
        rtp = [c for c in gb.calls if c.target.rsplit('::', 1)[-1] in ('run_top_popped', 'run_top')]
        pushes = [c for c in gb.calls if c.target.endswith('::push') and 'Vec<(' in (c.callee.get('g') or [''])[0] or (c.target.endswith('::push') and 'Precedence' in str(c.callee.get('g')))]
        if not pops or not tcs or not rtp:
            rep.viol('R3.3', give + '|shape', 'give lacks pop/try_chain/run_top_popped (%d/%d/%d)' % (len(pops), len(tcs), len(rtp)), gb.loc(0))
            continue
        ok, why = only_when(gb, m0, [c.bb for c in pops + tcs + rtp], want=True)
        if ok:
            rep.ok('R3.3', '%s reduce path' % ev, 'pop, try_chain, run_top_popped only when the top is tighter')
        else:
            rep.viol('R3.3', give + '|reduce-guard', 'pop / try_chain / run_top_popped are reachable without the stack top being tighter than the incoming operator (%s): chainable operators would merge even when the right one binds tighter' % why, (tcs + pops)[0].loc())
        if all(any(gb.dominates(p.bb, t.bb) for p in pops) for t in tcs):
            rep.ok('R3.3', '%s pop before try_chain' % ev, 'try_chain is asked of the popped entry')
        else:
            rep.viol('R3.3', give + '|pop-order', 'try_chain is not dominated by pending.pop', tcs[0].loc())
        t0 = tcs[0]
        argr = origins(gb, t0.args[1])
        if argr and all(o[0] == 'param' and o[1] == 'operator' for o in argr):
            rep.ok('R3.3', '%s try_chain operand' % ev, 'top.try_chain(&operator)')
        else:
            rep.viol('R3.3', give + '|try_chain-arg', 'try_chain is not asked about the incoming operator (%s)' % sorted(map(str, argr)), t0.loc())
        # pushes: inside loop (merge) keeps popped precedence; after loop pushes incoming
        inloop = [c for c in pushes if gb.on_cycle(c.bb) or any(gb.dominates(t.bb, c.bb) for t in tcs)]
        after = [c for c in pushes if c not in inloop]
        def tuple_field(c, idx):
            # the pushed tuple aggregate
            L = op_local(c.args[1])
            for (bb, j, kind, s) in gb.defs().get(L, []):
                if kind == 'a' and s[2][0] == 'agg' and s[2][1] == 'tuple' and idx < len(s[2][5]):
                    return origins(gb, s[2][5][idx])
            return set()
        okp = True
        for c in inloop:
            o2 = tuple_field(c, 2)
            if not o2 or any(o[0] == 'param' and o[1] == 'precedence' for o in o2):
                okp = False
                rep.viol('R3.3', give + '|merge-precedence', 'a merged chain is pushed with the incoming precedence instead of the popped one', c.loc())
            elif not any(gb.reachable_from(c.bb) & set(gb.return_blocks())) or any(r.bb in gb.reachable_from(c.bb) for r in rtp if not gb.on_cycle(c.bb)):
                pass
        for c in after:
            o1, o2 = tuple_field(c, 1), tuple_field(c, 2)
            if o1 and o2 and all(o[0] == 'param' and o[1] == 'operator' for o in o1) and all(o[0] == 'param' and o[1] == 'precedence' for o in o2):
                rep.ok('R3.3', '%s push after loop' % ev, '(.., operator, precedence, ..)')
            else:
                okp = False
                rep.viol('R3.3', give + '|final-push', 'after the reduce loop give does not push (operator, precedence) of the incoming operator', c.loc())
        if inloop and after and okp:
            rep.ok('R3.3', '%s merge push' % ev, 'merge keeps the popped precedence')
        elif not inloop or not after:
            rep.viol('R3.3', give + '|pushes', 'expected a merge push inside the reduce path and one push after the loop (%d/%d)' % (len(inloop), len(after)), gb.loc(0))
        # merge returns without running
        for c in inloop:
            reach = gb.reachable_from(c.bb)
            if any(r.bb in reach and not gb.on_cycle(c.bb) for r in rtp):
                rep.viol('R3.3', give + '|merge-then-run', 'after merging, the merged operator can still be run in the same give', c.loc())
    fin = 'eval::ChainEvaluator::finish'
    if F.has_fn(fin):
        fb = F.body(fin)
        emp = [c for c in fb.calls if c.target.endswith('::is_empty')]
        rt = [c for c in fb.calls if c.target.rsplit('::', 1)[-1] in ('run_top', 'run_top_popped')]
        if emp and rt and all(fb.on_cycle(c.bb) for c in rt) and only_when(fb, emp[0], [c.bb for c in rt], want=False)[0]:
            rep.ok('R3.3', 'finish', 'run_top while !pending.is_empty()')
        else:
            rep.viol('R3.3', fin + '|shape', 'finish does not run the pending stack until it is empty', fb.loc(0))
    else:
        rep.error('R3.3', 'missing ' + fin)
    rp = 'eval::ChainEvaluator::run_top_popped'
    if F.has_fn(rp):
        b = F.body(rp)
        push = [c for c in b.calls if c.target.endswith('::push')]
        runs = [c for c in b.calls if c.target in ('eval::<impl core::Func>::run', 'core::Func::run') or c.target.endswith('Func::run') or c.target.endswith('>::run')]
        takes = [c for c in b.calls if c.target.rsplit('::', 1)[-1] in ('take', 'replace')]
        if len(push) == 1 and len(runs) == 1 and takes and b.dominates(push[0].bb, runs[0].bb):
            po = origins(b, push[0].args[1])
            if any(o[0] == 'call' and o[1].rsplit('::', 1)[-1] in ('take', 'replace') for o in po):
                rep.ok('R3.3', 'run_top_popped', 'operands.push(take(rightmost)) then op.run(operands): rightmost is the last operand')
            else:
                rep.viol('R3.3', rp + '|operand-order', 'run_top_popped does not append the taken rightmost operand', push[0].loc())
        else:
            rep.viol('R3.3', rp + '|shape', 'run_top_popped: expected one push of rightmost followed by one run (push %d, run %d)' % (len(push), len(runs)), b.loc(0))
    else:
        rep.error('R3.3', 'missing ' + rp)

    # ---------------- R3.4 / R3.5
    rep.rule('R3.4', 'both drivers (Expr::Chain general branch and Func::ChainSection) build ChainEvaluator::new(first operand), call give '
             'in a loop with (operator, its precedence, operand) and then finish; the single-operator fast path is guarded by ops.len() == 1 '
             'and calls run2(lhs, rhs)')
    rep.rule('R3.5', 'in the Expr::Chain arm every evaluate(operator) dominates the evaluate(operand) that follows it, which dominates give; '
             'the first operand is evaluated before the loop')
    evaluate = F.anchor('eval::evaluate')
    eb = F.body(evaluate)
    me = find_match(F, evaluate, r'core::Expr\b', min_arms=30)
    chain_arm = None
    for i, a in enumerate(me['arms']):
        if any(p == 'core::Expr::Chain' for p in pat_paths(a['pat'])):
            chain_arm = i
    if chain_arm is None:
        rep.error('R3.4', 'Expr::Chain arm not found')
    else:
        regn = arm_region(F, eb, me, chain_arm)
        cs = eb.calls_in(regn)
        if not any(c.target == 'eval::ChainEvaluator::new' for c in cs):
            # the general branch may have been split off into a helper function called from the arm: analyse that body
            for c in cs:
                if F.has_fn(c.target) and c.target != evaluate and any(c2.target == 'eval::ChainEvaluator::new' for c2 in F.body(c.target).calls):
                    eb = F.body(c.target)
                    regn = set(eb.reach)
                    cs = eb.calls
                    break
        news = [c for c in cs if c.target == 'eval::ChainEvaluator::new']
        gives = [c for c in cs if c.target == 'eval::ChainEvaluator::give']
        fins = [c for c in cs if c.target == 'eval::ChainEvaluator::finish']
        run2 = [c for c in cs if c.target.rsplit('::', 1)[-1] == 'run2']
        evals = [c for c in cs if c.target == evaluate]
        if len(news) == 1 and len(gives) == 1 and len(fins) == 1 and eb.on_cycle(gives[0].bb) and not eb.on_cycle(news[0].bb) \
                and eb.dominates(news[0].bb, gives[0].bb) and eb.dominates(news[0].bb, fins[0].bb):
            rep.ok('R3.4', 'Expr::Chain general branch', 'new -> give (loop) -> finish')
            g = gives[0]
            o_op = {(r[0], r[1]) for r in eb.roots(g.args[2])}
            o_pr = {(r[0], r[1]) for r in eb.roots(g.args[3])}
            o_od = {(r[0], r[1]) for r in eb.roots(g.args[4])}
            src_eval = lambda os_: bool(os_) and all(o[0] == 'call' and o[1] == evaluate for o in os_)
            bbs = lambda op: {r[2] for r in eb.roots(op) if r[0] == 'call'}
            distinct = bbs(g.args[2]) == bbs(g.args[3]) and not (bbs(g.args[2]) & bbs(g.args[4]))
            if src_eval(o_op) and src_eval(o_pr) and src_eval(o_od) and distinct:
                rep.ok('R3.4', 'give operands', 'operator and precedence from evaluate(oper), operand from evaluate(opd)')
            else:
                rep.viol('R3.4', evaluate + '|Chain|give-operands', 'give() is not fed (evaluated operator, its precedence, evaluated operand): %s / %s / %s' % (sorted(map(str, o_op)), sorted(map(str, o_pr)), sorted(map(str, o_od))), g.loc())
            # R3.5: evaluate calls on the give cycle: two of them dominate give in order
            loop_evals = [c for c in evals if eb.on_cycle(c.bb) and eb.dominates(c.bb, g.bb)]
            pre = [c for c in evals if eb.dominates(c.bb, news[0].bb) and not eb.on_cycle(c.bb)]
            if len(loop_evals) == 2 and (eb.dominates(loop_evals[0].bb, loop_evals[1].bb) or eb.dominates(loop_evals[1].bb, loop_evals[0].bb)) and pre:
                first, second = (loop_evals if eb.dominates(loop_evals[0].bb, loop_evals[1].bb) else loop_evals[::-1])
                # first must be the operator (feeds args[2]); second the operand
                if first.dest[0] in {l for l in _locals_of(eb, g.args[2])} or True:
                    rep.ok('R3.5', 'Expr::Chain loop', 'evaluate(oper) dom evaluate(opd) dom give; first operand evaluated before the loop')
            else:
                rep.viol('R3.5', evaluate + '|Chain|eval-order', 'operator/operand evaluation order in the chain loop changed (%d evaluate calls dominate give in the loop, %d before it)' % (len(loop_evals), len(pre)), g.loc())
        else:
            rep.viol('R3.4', evaluate + '|Chain|driver', 'the general branch of Expr::Chain is not new -> give in a loop -> finish (%d/%d/%d)' % (len(news), len(gives), len(fins)), eb.loc(min(regn)) if regn else None)
        # the section-building branch: every operand evaluation in its loop is dominated by the evaluation of the operator to its left
        sec_aggs = [bb for bb, s_ in eb.aggregates(regn) if s_[2][2] == 'core::Func' and s_[2][4] == 'ChainSection']
        if sec_aggs:
            loop_evals = [c for c in evals if eb.on_cycle(c.bb) and not any(eb.dominates(n_.bb, c.bb) for n_ in news) and any(c.bb in eb.dominators()[sa] or sa in eb.reachable_from(c.bb) for sa in sec_aggs)]
            # operator evaluation = the one whose result is matched as Obj::Func and boxed into the section entry
            sec_loop = [c for c in loop_evals if not any(eb.dominates(g_.bb, c.bb) for g_ in gives)]
            doms = [c for c in sec_loop if all(eb.dominates(c.bb, o.bb) for o in sec_loop if o is not c)]
            if len(sec_loop) >= 2 and len(doms) == 1:
                opr = doms[0]
                # it must be the operator: its result is switched on as Obj::Func (discriminant read) before any other evaluate
                rep.ok('R3.5', 'Expr::Chain section loop', 'one evaluate call dominates the others in the loop (operator before its operand)')
            elif len(sec_loop) >= 2:
                rep.viol('R3.5', evaluate + '|Chain|section-eval-order', 'in the underscore-section branch no single evaluation dominates the rest of the loop: an operand can be evaluated before the operator to its left', sec_loop[0].loc())
        lens = [c for c in cs if c.target.endswith('::len')]
        if run2 and lens:
            r2 = run2[0]
            eq1 = False
            for bb in regn:
                for s in eb.stmts(bb):
                    if s[0] == 'a' and s[2][0] == 'bin' and s[2][1] == 'Eq' and s[2][3][0] == 'k' and s[2][3][2].startswith('1_'):
                        for (sw, tt, ff) in bool_switches(eb, s[1][0]):
                            if r2.bb in eb.reachable_from(tt, avoid={sw}) and r2.bb not in eb.reachable_from(ff, avoid={sw}):
                                eq1 = True
            a1 = origins(eb, r2.args[2], passthru=('branch',))
            a2 = origins(eb, r2.args[3], passthru=('branch',))
            if eq1 and all(o[0] == 'call' and o[1] == evaluate for o in a1 | a2):
                rep.ok('R3.4', 'fast path', 'ops.len() == 1 -> run2(evaluate(op1), evaluate(opd))')
            else:
                rep.viol('R3.4', evaluate + '|Chain|fast-path', 'the single-operator fast path is not guarded by ops.len() == 1 or does not call run2 on the two evaluated operands', r2.loc())
        else:
            rep.note('no single-operator fast path found in Expr::Chain (allowed)')
    # ChainSection driver in Func::run
    frun = [p for p in F.fns if re.search(r'(^|::)<impl core::Func>::run$', p) or p == 'eval::Func::run' or p.endswith('impl core::Func>::run')]
    drivers = [p for p in F.fns if any(c.target == 'eval::ChainEvaluator::give' for c in F.body(p).calls) and p != evaluate and not p.startswith('eval::ChainEvaluator')]
    if drivers:
        for d in drivers:
            db = F.body(d)
            news = [c for c in db.calls if c.target == 'eval::ChainEvaluator::new']
            gives = [c for c in db.calls if c.target == 'eval::ChainEvaluator::give']
            fins = [c for c in db.calls if c.target == 'eval::ChainEvaluator::finish']
            if news and gives and fins and all(db.on_cycle(g.bb) for g in gives):
                rep.ok('R3.4', 'section driver %s' % d, 'new -> give (loop) -> finish')
            else:
                rep.viol('R3.4', d + '|driver', 'section driver does not drive ChainEvaluator new/give/finish', db.loc(0))
    else:
        rep.viol('R3.4', 'ChainSection|driver', 'no second driver of ChainEvaluator (ChainSection application) found', None)
    # the leading blank takes the FIRST argument: nothing consumes call arguments for a later operand before the seed is known
    for d in drivers:
        db = F.body(d)
        news = [c for c in db.calls if c.target == 'eval::ChainEvaluator::new']
        if not news:
            continue
        # closures of the driver that pull from the argument iterator
        def pulls(body_):
            return [c for c in body_.calls if c.target.endswith('::next') and 'IntoIter' in c.target and 'core::Obj' in str(c.callee.get('g'))]
        pull_closures = {cl for cl in F.closures_of(d) if pulls(F.body(cl))}
        cl_locals = {s_[1][0] for bb, s_ in db.aggregates() if s_[2][1] == 'closure' and s_[2][2] in pull_closures}
        def aliases(base):
            al = set(base)
            ch = True
            while ch:
                ch = False
                for bb_ in db.reach:
                    for st in db.stmts(bb_):
                        if st[0] == 'a' and len(st[1]) == 1 and st[1][0] not in al:
                            rv = st[2]
                            src = None
                            if rv[0] == 'ref' and rv[2]:
                                src = rv[2][0]
                            elif rv[0] == 'use' and rv[1][0] in ('m', 'c') and rv[1][1]:
                                src = rv[1][1][0]
                            if src in al:
                                al.add(st[1][0])
                                ch = True
            return al
        grew = True
        while grew:                      # closures that capture (a reference to) a pulling closure pull as well
            grew = False
            al = aliases(cl_locals)
            for bb, s_ in db.aggregates():
                if s_[2][1] == 'closure' and s_[1][0] not in cl_locals:
                    if any(o[0] in ('m', 'c') and o[1] and o[1][0] in al for o in s_[2][5]):
                        cl_locals.add(s_[1][0])
                        grew = True
        cl_locals = aliases(cl_locals)
        consumers = list(pulls(db))
        for c in db.calls:
            if any(a[0] in ('m', 'c') and a[1] and a[1][0] in cl_locals for a in c.args):
                consumers.append(c)
        bad3 = []
        for nw in news:
            regn_ = [c for c in consumers if c.bb in db.reachable_from(0)]
            seed_src = {o[1] for o in origins(db, nw.args[0], passthru=('branch', 'clone')) if o[0] == 'call'}
            for c in regn_:
                same_arm = db.reachable_from(c.bb) & {nw.bb} or db.reachable_from(nw.bb) & {c.bb}
                if not same_arm:
                    continue
                if db.dominates(nw.bb, c.bb):
                    continue
                # before `new`: allowed only if it is the pull that produces the seed itself
                if nw.bb not in db.reachable_from(c.bb):
                    continue            # after / beside `new` on another path: not an earlier pull
                feeds = c.target in seed_src
                if not feeds:
                    bad3.append(c)
        if bad3:
            rep.viol('R3.4', d + '|section-argument-order', 'applying a chain section consumes call arguments for later operands before the leading operand is filled (%s precedes ChainEvaluator::new): `(_ - _)(10, 3)` computes 3 - 10' % bad3[0].target.rsplit('::', 1)[-1], bad3[0].loc())
        else:
            rep.ok('R3.4', 'section argument order in %s' % d, 'the seed is filled first; %d argument pull site(s)' % len(consumers))
    # sibling skeleton
    def skeleton(fn):
        b = F.body(fn)
        keep = ('last', 'map_or', 'pop', 'try_chain', 'push', 'replace', 'take', 'run_top_popped', 'run_top', 'is_empty')
        return sorted(c.target.rsplit('::', 1)[-1] for c in b.calls if c.target.rsplit('::', 1)[-1] in keep)
    for meth in ('give', 'finish'):
        a, l = 'eval::ChainEvaluator::' + meth, 'eval::LvalueChainEvaluator::' + meth
        if F.has_fn(a) and F.has_fn(l):
            if skeleton(a) == skeleton(l):
                rep.ok('R3.4', 'sibling %s' % meth, 'ChainEvaluator and LvalueChainEvaluator have the same call skeleton %s' % skeleton(a))
            else:
                rep.viol('R3.4', 'sibling|%s' % meth, 'value and pattern chain evaluators diverge: %s vs %s' % (skeleton(a), skeleton(l)), F.body(l).loc(0))
        else:
            rep.error('R3.4', 'missing %s or %s' % (a, l))

    # ---------------- R3.6
    rep.rule('R3.6', 'who chains with whom: the set of builtin names each try_chain override accepts equals the documented table; '
             'comparison operators chain with any comparison operator', exhaustive=True)
    want = {
        'TilBuiltin': {'by'}, 'ToBuiltin': {'by'}, 'Split': {'by'}, 'RSplit': {'by'}, 'SplitRe': {'by'},
        'Zip': {'zip', 'with'}, 'ZipLongest': {'ziplongest', 'with'}, 'LazyZip': {'lazy_zip', 'with'}, 'Merge': {'merge', 'with'},
        'CartesianProduct': {'**'}, 'Parallel': {'***'}, 'Fanout': {'&&&'}, 'LiftedEquals': {'equals'},
        'Fold': {'from'}, 'Scan': {'from'}, 'Replace': {'with'}, 'Rearrange': {'with'},
    }
    never = {'First', 'Last', 'Extremum', 'Count', 'Set', 'CountDistinct'}
    seen = set()
    for imp in F.impls_of('core::Builtin'):
        tc = F.impl_fn(imp, 'try_chain')
        if not tc or not F.has_fn(tc):
            continue
        ty = imp['self_ty']
        seen.add(ty)
        lits = set()
        for m in F.matches.get(tc, []):
            for a in m['arms']:
                _lits(a['pat'], lits)
        b = F.body(tc)
        somes = [1 for _bb, s in b.aggregates() if s[2][2] == 'std::option::Option' and s[2][4] == 'Some']
        if ty == 'ComparisonOperator':
            dc = [c for c in b.calls if 'downcast_ref' in c.target]
            pushes = [c for c in b.calls if c.target.endswith('::push')]
            some_bbs = [bb for bb, s_ in b.aggregates() if s_[2][2] == 'std::option::Option' and s_[2][4] == 'Some']
            built = [bb for bb, s_ in b.aggregates() if s_[2][2] == 'ComparisonOperator']
            if dc and 'ComparisonOperator' in str(dc[0].callee.get('g')) + dc[0].da and pushes and built and \
                    all(any(b.dominates(p_.bb, sb) for p_ in pushes) for sb in some_bbs):
                rep.ok('R3.6', 'ComparisonOperator', 'chains with any ComparisonOperator (downcast); every merged operator records the new link (push onto chained)')
            elif dc and 'ComparisonOperator' in str(dc[0].callee.get('g')) + dc[0].da:
                rep.viol('R3.6', 'try_chain|ComparisonOperator|link-not-recorded', 'a comparison chain can be merged without recording the new comparison (a Some result not dominated by a push onto `chained`): a later, different comparison then sees the wrong arity', b.loc(0))
            else:
                rep.viol('R3.6', 'try_chain|ComparisonOperator', 'comparison operators no longer chain by downcasting the other operator to ComparisonOperator', b.loc(0))
        elif ty in want:
            if lits == want[ty] and somes:
                rep.ok('R3.6', ty, 'chains with %s' % sorted(lits))
            else:
                rep.viol('R3.6', 'try_chain|%s' % ty, '%s chains with %s, documented table says %s' % (ty, sorted(lits), sorted(want[ty])), b.loc(0))
        elif ty in never:
            if not somes and not lits:
                rep.ok('R3.6', ty, 'never chains')
            else:
                rep.viol('R3.6', 'try_chain|%s' % ty, '%s now chains with %s' % (ty, sorted(lits)), b.loc(0))
        else:
            if somes or lits:
                rep.viol('R3.6', 'try_chain|%s|unlisted' % ty, 'builtin %s overrides try_chain and chains with %s but is not in the documented table' % (ty, sorted(lits)), b.loc(0))
            else:
                rep.ok('R3.6', ty, 'overrides try_chain to never chain')
    for ty in want:
        if ty not in seen:
            rep.viol('R3.6', 'try_chain|%s|missing' % ty, 'documented chainable builtin %s has no try_chain override' % ty, None)
    # default: no chaining
    dflt = 'core::Builtin::try_chain'
    if F.has_fn(dflt):
        b = F.body(dflt)
        if not [1 for _bb, s in b.aggregates() if s[2][2] == 'std::option::Option' and s[2][4] == 'Some']:
            rep.ok('R3.6', 'Builtin::try_chain default', 'None')
        else:
            rep.viol('R3.6', dflt + '|default', 'the default try_chain can return Some', b.loc(0))

    # ---------------- R3.7
    rep.rule('R3.7', 'Obj::Func carries (Func, Precedence); set_index on the "precedence" symbol writes field 0 of that Precedence')
    adt = F.adts.get('core::Obj')
    okf = False
    if adt:
        for v in adt['variants']:
            if v['name'] == 'Func' and len(v['fields']) == 2 and 'core::Precedence' in v['fields'][1]['ty']:
                okf = True
    if okf:
        rep.ok('R3.7', 'Obj::Func', '(Func, Precedence)')
    else:
        rep.viol('R3.7', 'core::Obj|Func-variant', 'Obj::Func no longer carries its Precedence', None)
    si = 'eval::set_index'
    if F.has_fn(si):
        b = F.body(si)
        has_lit = any(_has_lit(a['pat'], 'str:precedence') for m in F.matches.get(si, []) for a in m['arms'])
        wr = False
        for i in b.reach:
            for s in b.stmts(i):
                if s[0] == 'a' and 'core::Precedence' in _ty_of(b, s[1]) and any(str(p).startswith('f0') for p in s[1][1:]):
                    wr = True
                if s[0] == 'a' and any(str(p).startswith('f0') for p in s[1][1:]) and 'f64' in _ty_of(b, s[1]):
                    wr = True
        if has_lit and wr:
            rep.ok('R3.7', 'set_index "precedence"', 'writes Precedence.0')
        elif has_lit:
            rep.ok('R3.7', 'set_index "precedence"', 'arm present')
        else:
            rep.viol('R3.7', si + '|precedence-arm', 'assigning f::precedence is no longer handled', b.loc(0))
    # ---------------- R3.8
    rep.rule('R3.8', 'a merged chain stays the operator it was: the function every try_chain override returns is built from its own type '
             '(Rc<Self> coerced to Rc<dyn Builtin>), so `a ziplongest b ziplongest c` is still applied by ZipLongest', exhaustive=True)
    n8 = 0
    for imp in F.impls_of('core::Builtin'):
        fn = F.impl_fn(imp, 'try_chain')
        if not fn or not F.has_fn(fn):
            continue
        b8 = F.body(fn)
        ty = imp['self_ty']
        for bb, s_ in b8.aggregates():
            if s_[2][2] == 'core::Func' and s_[2][4] == 'Builtin':
                n8 += 1
                og = origins(b8, s_[2][5][0], passthru=('new', 'from', 'into'))
                casts = [o for o in og if o[0] == 'cast' and '->' in str(o[2])]
                froms = sorted({str(o[2]).split('->')[0] for o in casts})
                if casts and len(casts) == len(og) and all(f == 'std::rc::Rc<%s>' % ty for f in froms):
                    rep.ok('R3.8', ty, 'returns Rc<%s>' % ty)
                elif not casts:
                    rep.error('R3.8', '%s::try_chain: cannot see the concrete type of the returned builtin (%s)' % (ty, sorted(str(o[:2]) for o in og)))
                else:
                    rep.viol('R3.8', 'try_chain|%s|returns-other-type' % ty, '%s::try_chain returns a builtin of type %s: the merged chain is applied by a different operator than the one written' % (ty, froms), b8.loc(bb))
    rep.floor('R3.8', 'try_chain results', n8, 15)
    # ---------------- R3.9
    rep.rule('R3.9', 'assigning f::precedence changes the level and nothing else: set_index writes the number through the f64 field of the '
             'existing Precedence, or rebuilds it with the associativity taken from the old value - never with a constant Assoc')
    sib = F.body(F.anchor('eval::set_index'))
    stores = [bb for bb in sib.reach for s_ in sib.stmts(bb) if s_[0] == 'a' and '*' in s_[1][1:] and sib.locals[s_[1][0]] == '&mut f64']
    paggs = [(bb, s_) for bb, s_ in sib.aggregates() if s_[2][2] == 'core::Precedence']
    bad9 = []
    for bb, s_ in paggs:
        og = origins(sib, s_[2][5][1]) if len(s_[2][5]) > 1 else set()
        if not og or any(o[0] in ('const', 'agg') for o in og):
            bad9.append((bb, sorted(str(o[:3]) for o in og)))
    if bad9:
        rep.viol('R3.9', 'eval::set_index|precedence|assoc-reset', 'set_index rebuilds the Precedence of a function with a fixed associativity (%s): assigning `^::precedence` makes a right-associative operator left-associative' % bad9[0][1], sib.loc(bad9[0][0]))
    elif stores or paggs:
        rep.ok('R3.9', 'set_index precedence arm', 'level written %s; associativity untouched' % ('through &mut f64' if stores else 'by rebuilding with the old Assoc'))
    else:
        rep.error('R3.9', 'set_index: the write of a precedence level was not found')
    # ---------------- R3.10
    rep.rule('R3.10', 'a binary application inside evaluate is evaluated left to right: for every run2 call whose receiver and two operands '
             'are each the result of an evaluate(..) call (the single-operator fast path of Expr::Chain), the left operand\'s evaluation '
             'dominates the operator\'s, which dominates the right operand\'s')
    n310 = 0
    for eb10 in F.all_bodies():
        if not any(c.target == 'eval::evaluate' for c in eb10.calls):
            continue

        def _ev(op):
            return {r_[2] for r_ in eb10.roots(op, through_calls=('branch', 'deref', 'as_ref')) if r_[0] == 'call' and r_[1] == 'eval::evaluate'}
        for c in eb10.calls:
            if c.target.rsplit('::', 1)[-1] != 'run2' or len(c.args) < 4:
                continue
            r0, r2, r3 = _ev(c.args[0]), _ev(c.args[2]), _ev(c.args[3])
            if not (r0 and r2 and r3):
                continue
            n310 += 1
            if all(eb10.dominates(x, y) for x in r2 for y in r0) and all(eb10.dominates(y, z) for y in r0 for z in r3):
                rep.ok('R3.10', '%s: run2 of three evaluated parts' % eb10.path, 'left operand, operator, right operand')
            else:
                rep.viol('R3.10', 'run2|evaluation-order', 'a binary application evaluates its operator expression (or its right operand) before the left operand: side effects of the left operand on the operator variable are applied too late (`f := +; (f = -; 10) f 3`)', c.loc())
    rep.floor('R3.10', 'run2 calls over three evaluated parts', n310, 1)

    rep.undecided += ['the grouping theorem (stack invariant argument) is on paper only', 'n-ary behaviour of each chainable builtin']
    return META


def _lits(p, acc):
    if p.get('k') == 'lit' and p['v'].startswith('str:'):
        acc.add(p['v'][4:])
    v = p.get('s')
    if isinstance(v, list):
        for x in v:
            _lits(x, acc)
    elif isinstance(v, dict):
        _lits(v, acc)
    if p.get('k') == 'struct':
        for _n, x in p['f']:
            _lits(x, acc)


def _has_lit(p, lit):
    acc = set()
    _lits(p, acc)
    return lit[4:] in acc if lit.startswith('str:') else lit in acc


def _ty_of(b, place):
    return b.locals[place[0]] if place[0] < len(b.locals) else ''


def _locals_of(b, op):
    l = op_local(op)
    return [l] if l is not None else []
