"""C11 - lazy streams: per-implementation consistency, non-advancing observation, loop progress, Range length symmetry."""
import re
from fractions import Fraction
from .core import (CheckError, find_match, arm_region, pat_str, strip_ref, origins, only_when, pat_paths,
                   Registry, op_local)

META = {
    'level': 'other',
    'explanation': (
        'Decides structural clauses, not closed forms over values: (R11.1) exhaustive table over every impl Stream: a stream whose '
        'next can end never declares len = None nor refuses force; (R11.2) every observation method of trait Stream takes &self and '
        'iterates a clone_box() copy, and the consumers holding an Rc<dyn Stream> advance in place only when they own it uniquely; '
        '(R11.3) every loop whose condition peeks a stream calls next on every path around the loop or leaves; (R11.4) Range::len: the '
        'negative-step arm is the mirror image of the positive-step arm under (start,end,step) -> (-start,-end,-step) (symbolic linear '
        'forms from MIR) and every truncating NInt division there has a max(.,0)-clamped numerator; Range::empty compares in the '
        'direction of the step; (R11.5) infinite streams declare len None and the len builtin maps it to infinity.'),
    'trusted_base': ['rustc nightly HIR/MIR', 'Rc::get_mut returns Some only for a unique handle'],
    'assumptions': ['closed-form len of Permutations/Subsequences/CartesianPower and the values lazy adaptors yield are not decided'],
}


def ret_origins(b):
    return origins(b, ['c', [0]])


class Sym:
    """symbolic linear forms over start/end/step from the MIR of Range::len"""

    def __init__(self, b):
        self.b = b
        self.memo = {}

    def lin(self, d):
        return {k: v for k, v in d.items() if v != 0}

    def sym(self, op, depth=0):
        if op[0] == 'k':
            m = re.match(r'^(-?\d+)_', op[2])
            return ('lin', self.lin({1: Fraction(int(m.group(1)))})) if m else ('unk', op[2])
        if op[0] not in ('c', 'm'):
            return ('unk', 'operand')
        return self.local(op[1][0], depth)

    def local(self, L, depth):
        if L in self.memo:
            return self.memo[L]
        nm = self.b.varnames.get(L)
        if nm in ('start', 'end', 'step'):
            r = ('lin', {nm: Fraction(1)})
            self.memo[L] = r
            return r
        if depth > 40:
            return ('unk', 'depth')
        self.memo[L] = ('unk', 'cycle')
        ds = self.b.defs().get(L, [])
        vals = []
        for (bb, j, kind, s) in ds:
            if kind == 'call':
                vals.append(self.call(s, depth))
            else:
                rv = s[2]
                if rv[0] == 'use':
                    vals.append(self.sym(rv[1], depth + 1))
                elif rv[0] == 'ref':
                    vals.append(self.local(rv[2][0], depth + 1))
                elif rv[0] == 'agg' and rv[2] == 'nint::NInt' and rv[4] == 'Small':
                    vals.append(self.sym(rv[5][0], depth + 1))
                else:
                    vals.append(('unk', rv[0]))
        r = vals[0] if len(vals) == 1 else ('unk', 'multi-def' if vals else 'undef')
        self.memo[L] = r
        return r

    def call(self, t, depth):
        c = t[1]
        tr = c.get('tr', '')
        name = (c.get('d') or '').rsplit('::', 1)[-1]
        args = [self.sym(a, depth + 1) for a in t[2]]
        if tr in ('std::ops::Add', 'std::ops::Sub') and len(args) == 2 and all(a[0] == 'lin' for a in args):
            sgn = 1 if tr.endswith('Add') else -1
            d = dict(args[0][1])
            for k, v in args[1][1].items():
                d[k] = d.get(k, 0) + sgn * v
            return ('lin', self.lin(d))
        if tr == 'std::ops::Neg' and args and args[0][0] == 'lin':
            return ('lin', self.lin({k: -v for k, v in args[0][1].items()}))
        if name == 'max' and len(args) == 2:
            z = [a for a in args if a == ('lin', {})]
            o = [a for a in args if a != ('lin', {})]
            if z and len(o) == 1:
                return ('max0', o[0])
            return ('unk', 'max')
        if tr == 'std::ops::Div' and len(args) == 2:
            return ('div', args[0], args[1])
        if name in ('clone', 'deref', 'borrow', 'as_ref', 'branch', 'into', 'from', 'to_usize', 'unwrap'):
            return args[0] if args else ('unk', name)
        return ('unk', name)


def mirror(form):
    """(start,end,step) -> (-start,-end,-step) on a linear form"""
    return {k: (-v if k != 1 else v) for k, v in form.items()}


def show(f):
    if f[0] == 'lin':
        return ' + '.join('%s*%s' % (v, k) for k, v in sorted(f[1].items(), key=str)) or '0'
    if f[0] == 'max0':
        return 'max(%s, 0)' % show(f[1])
    if f[0] == 'div':
        return '(%s) / (%s)' % (show(f[1]), show(f[2]))
    return '?%s' % (f[1],)


def run(F, rep, tier):
    impls = F.impls_of('core::Stream')
    rep.floor('R11.1', 'impl Stream', len(impls), 12)
    # ---------------- R11.1 / R11.5
    rep.rule('R11.1', 'for every impl Stream: (len overridden as constant None) implies next never returns None; (force overridden as '
             'constant Err) implies len is constant None; reviewed exception: Iterate (ends only when the user function breaks)',
             exhaustive=True)
    rep.rule('R11.5', 'Repeat, Cycle and Iterate declare len None; Range::len returns None through ? when the end is absent; the len '
             'builtin maps None to infinity')
    exceptions = {'streams::Iterate': 'documented as infinite; next ends only if the user function raises break'}
    table = {}
    for imp in impls:
        ty = imp['self_ty']
        base = ty.split('<')[0]
        its = [i for i in F.impls if i['trait'] == 'std::iter::Iterator' and i['self_ty'] == ty]
        nxt = F.impl_fn(its[0], 'next') if its else None
        if not nxt or not F.has_fn(nxt):
            rep.error('R11.1', 'no Iterator::next for %s' % ty)
            continue
        no = ret_origins(F.body(nxt))
        can_end = not all(o[0] == 'agg' and o[1] == 'std::option::Option' and o[2] == 'Some' for o in no)
        lenf = F.impl_fn(imp, 'len')
        forcef = F.impl_fn(imp, 'force')
        len_none = False
        if lenf:
            lo = ret_origins(F.body(lenf))
            len_none = bool(lo) and all(o[0] == 'agg' and o[1] == 'std::option::Option' and o[2] == 'None' for o in lo)
        force_err = False
        if forcef:
            fo = ret_origins(F.body(forcef))
            force_err = bool(fo) and all(o[0] == 'agg' and o[1] == 'std::result::Result' and o[2] == 'Err' for o in fo)
        table[base] = (can_end, len_none, force_err)
        inst = '%s: next can end=%s, len==None=%s, force==Err=%s' % (ty, can_end, len_none, force_err)
        if base in exceptions:
            rep.ok('R11.1', inst, 'exception: ' + exceptions[base])
            continue
        bad = []
        if len_none and can_end:
            bad.append('declares infinite length (len = None) although next can return None')
        if force_err and not len_none:
            bad.append('refuses force although its length is not declared infinite')
        if force_err and can_end:
            bad.append('refuses force although iteration can end')
        if bad:
            rep.viol('R11.1', '%s|len-next-agreement' % base, '%s: %s' % (ty, '; '.join(bad)), F.body(nxt).loc(0))
        else:
            rep.ok('R11.1', inst, 'consistent')
    # a slice whose bounds cross is empty: the length of a materialised slice is max(hi - lo, 0), never |hi - lo|
    for p_ in sorted(F.bodies_raw):
        if '::promoted' in p_ or not re.search(r'pythonic_slice(_obj)?$', p_.split('::{closure')[0]):
            continue
        ab_ = [c for c in F.body(p_).calls if c.target.rsplit('::', 1)[-1] in ('unsigned_abs', 'abs', 'abs_diff', 'wrapping_abs')]
        if ab_:
            rep.viol('R11.4', '%s|abs-length' % p_, '%s takes an absolute value of a bound difference (%s): a slice with crossed bounds (s[4:2]) gets |hi - lo| elements instead of none' % (p_, ab_[0].target.rsplit('::', 1)[-1]), ab_[0].loc())
        else:
            rep.ok('R11.4', '%s slice length' % p_, 'no absolute value of bound differences')
    # peek reports exhaustion exactly when next does: a "cursor longer than the base" style guard (a comparison of two lengths) occurs in
    # peek - including the helpers it calls - only for stream types whose next() has such a guard too
    def _lenlen(fn):
        n_ = 0
        bodies = [F.body(fn)] + [F.body(c_) for c_ in F.closures_of(fn)]
        for b_ in list(bodies):
            for c in b_.calls:
                if F.has_fn(c.target) and c.target != fn and not c.target.startswith('<') and c.target.split('::')[0] in ('streams', 'core') and len(F.body(c.target).blocks) < 60:
                    bodies.append(F.body(c.target))
        for b_ in bodies:
            for bb in b_.reach:
                for s_ in b_.stmts(bb):
                    if s_[0] == 'a' and s_[2][0] == 'bin' and s_[2][1] in ('Gt', 'Lt', 'Ge', 'Le'):
                        o1, o2 = origins(b_, s_[2][2]), origins(b_, s_[2][3])
                        if o1 and o2 and all(o[0] == 'call' and o[1].endswith('::len') for o in o1) and all(o[0] == 'call' and o[1].endswith('::len') for o in o2):
                            n_ += 1
        return n_
    for imp in impls:
        ty = imp['self_ty']
        its = [i for i in F.impls if i['trait'] == 'std::iter::Iterator' and i['self_ty'] == ty]
        nx_ = F.impl_fn(its[0], 'next') if its else None
        pk_ = F.impl_fn(imp, 'peek')
        if not (nx_ and pk_ and F.has_fn(nx_) and F.has_fn(pk_)):
            continue
        gn, gp = _lenlen(nx_), _lenlen(pk_)
        if gp and not gn:
            rep.viol('R11.6', '%s|peek-only-length-guard' % ty.split('<')[0], '%s::peek (or a helper it calls) reports exhaustion on a comparison of two lengths that next() never makes: peek says "empty" while iteration still yields elements (drop-while over such a stream keeps everything)' % ty, F.body(pk_).loc(0))
        else:
            rep.ok('R11.6', '%s peek/next length guards' % ty, 'next %d, peek %d' % (gn, gp))
    # ---------------- R11.8
    rep.rule('R11.8', 'iterate(a, f) yields an element before it applies f to it: in the ready (Ok) state Iterate::next returns Some(Ok(current)) '
             'on every path - a failure or break of the step function is stored for the following call, it does not replace the element that '
             'peek (which returns Some(Ok(current)) in that state) has already promised')
    itn = '<streams::Iterate as std::iter::Iterator>::next'
    if not F.has_fn(itn):
        rep.error('R11.8', 'Iterate::next missing')
    else:
        ib = F.body(itn)
        im = find_match(F, itn, r'Result<\(core::Obj, core::Func', min_arms=2)
        okarm = [i for i, a in enumerate(im['arms']) if pat_str(a['pat']).startswith('v1::Ok')]
        if len(okarm) != 1:
            rep.error('R11.8', 'Iterate::next: ready-state arm not found')
        else:
            regn = arm_region(F, ib, im, okarm[0])
            rets = [(bb, s_) for bb, s_ in ib.aggregates(regn) if s_[1] == [0]]
            other0 = [bb for bb in regn for s_ in ib.stmts(bb) if s_[0] == 'a' and s_[1] == [0] and s_[2][0] != 'agg']
            other0 += [c.bb for c in ib.calls_in(regn) if c.dest == [0]]
            bad = []
            for bb, s_ in rets:
                pay = set()
                for o in s_[2][5]:
                    pay |= origins(ib, o)
                if not (s_[2][4] == 'Some' and pay and all(o[0] == 'agg' and o[2] == 'Ok' for o in pay)):
                    bad.append((bb, s_[2][4], sorted(str(o[:3]) for o in pay)))
            if rets and not bad and not other0:
                rep.ok('R11.8', 'Iterate::next ready state', '%d return value(s), all Some(Ok(_))' % len(rets))
            else:
                loc = ib.loc(bad[0][0]) if bad else (ib.loc(other0[0]) if other0 else ib.loc(0))
                rep.viol('R11.8', 'streams::Iterate|next|ready-state-result', 'in its ready state Iterate::next can return %s: the element on which the step function fails or breaks is lost (peek still reports it)' % (bad[:2] or 'a value not built as Some(Ok(_))'), loc)
    # ---------------- R11.7
    rep.rule('R11.7', 'observation is relative to the cursor: in every impl Stream, an overriding len / peek / reversed / pythonic_index_isize / '
             'pythonic_slice that reads the stream\'s state at all reads every field that next() advances (writes of next under-approximated, '
             'reads over-approximated), and no path that reads other fields of the stream reaches a non-constant result (anything but None / Err / an early `?` exit) without reading the cursor; an override reading nothing is a constant and independent of the cursor by construction', exhaustive=True)
    from .streamfields import next_writes, reads, cursor_free_paths
    n117 = 0
    for imp in impls:
        ty = imp['self_ty']
        base = ty.split('<')[0]
        its = [i for i in F.impls if i['trait'] == 'std::iter::Iterator' and i['self_ty'] == ty]
        nxt = F.impl_fn(its[0], 'next') if its else None
        adt = F.adts.get(base)
        if not nxt or not F.has_fn(nxt) or not adt:
            continue
        allf = ['f%d:%s' % (i, f['name']) for i, f in enumerate(adt['variants'][0]['fields'])]
        w = next_writes(F.body(nxt))
        for m in ('len', 'peek', 'reversed', 'pythonic_index_isize', 'pythonic_slice'):
            fn = F.impl_fn(imp, m)
            if not fn or not F.has_fn(fn):
                continue
            r, whole = reads(F.body(fn), allf)
            n117 += 1
            free = cursor_free_paths(F.body(fn), allf, w) if (w and r) else []
            if (not r or w <= r) and not free:
                rep.ok('R11.7', '%s::%s' % (base, m), 'next advances %s; reads %s%s; no result-producing path reads other state without the cursor' % (sorted(w), sorted(r) or 'nothing (constant)', ' (whole self)' if whole else ''))
            elif free:
                fb = F.body(fn)
                rep.viol('R11.7', '%s|%s|cursor-free-path' % (base, m), '%s::%s has a path that reads the stream\'s other state (%s) and produces a result (%s) without ever reading %s, the field next() advances: on that path a partially consumed stream answers as if nothing had been consumed' % (ty, m, fb.loc(free[0][0]), fb.loc(free[0][1]), sorted(w)), fb.loc(free[0][0]))
            else:
                rep.viol('R11.7', '%s|%s|cursor-field' % (base, m), '%s::%s reads %s but not %s, the field next() advances: after consuming elements it still answers for the start of the stream' % (ty, m, sorted(r), sorted(w - r)), F.body(fn).loc(0))
    rep.floor('R11.7', 'observing overrides', n117, 20)
    for base in ('streams::Repeat', 'streams::Cycle', 'streams::Iterate'):
        t = table.get(base)
        if t and t[1]:
            rep.ok('R11.5', base, 'len is constantly None')
        else:
            rep.viol('R11.5', base + '|len', '%s no longer declares an infinite length' % base, None)
    rl = '<streams::Range as core::Stream>::len'
    if F.has_fn(rl):
        b = F.body(rl)
        # evaluated on the abstract input "end is absent", whatever the shape of the source
        from .minieval import Evaluator, Cell, Unsupported, OPTION_NONE
        verdict = None
        try:
            ev = Evaluator(b, lambda x, y: None)
            me_ = ('ref', Cell(('adt', 'Range', 0, [('sym', 'start'), OPTION_NONE, ('sym', 'step')])))
            res_ = ev.run([me_])
            verdict = (res_ == OPTION_NONE) or (res_[0] == 'adt' and res_[1] == 'Option' and res_[2] == 0)
        except Unsupported:
            verdict = None
        if verdict is None:
            verdict = any(c.target.endswith('from_residual') for c in b.calls) and any(c.target.endswith('::as_ref') or c.target.endswith('::branch') for c in b.calls)
        if verdict:
            rep.ok('R11.5', 'Range::len unbounded', 'an absent end gives None')
        else:
            rep.viol('R11.5', rl + '|unbounded', 'Range::len does not return None for an absent end', b.loc(0))
    reg = Registry(F)
    try:
        lb = F.body(reg.body_of('len'))
        inf_args = [c for c in lb.calls if any(a[0] == 'k' and 'INFINITY' in a[2] for a in c.args)]
        m = find_match(F, lb.path, r'Option<usize>', min_arms=2)
        okl = False
        for i, a in enumerate(m['arms']):
            if any(p.endswith('::None') for p in pat_paths(a['pat'])):
                regn = arm_region(F, lb, m, i)
                if any(c.bb in regn for c in inf_args):
                    okl = True
        if okl:
            rep.ok('R11.5', 'len builtin', 'None -> f64::INFINITY')
        else:
            rep.viol('R11.5', 'builtin|len|inf', 'the len builtin does not map an unknown/unbounded length (None) to infinity', lb.loc(0))
    except CheckError as e:
        rep.error('R11.5', str(e))

    # ---------------- R11.2
    rep.rule('R11.2', 'every method of trait Stream other than Iterator::next takes &self; default methods call next only on a receiver '
             'derived from clone_box(); MutObjIntoIter-style consumers call next on an Rc<dyn Stream> only through Rc::get_mut, '
             'otherwise on a clone_box copy')
    tr = F.traits.get('core::Stream')
    if not tr:
        rep.error('R11.2', 'trait core::Stream missing')
    else:
        for n, p, has_default in tr['items']:
            if has_default and F.has_fn(p):
                f = F.fns[p]
                if f['inputs'] and f['inputs'][0].startswith('&') and not f['inputs'][0].startswith('&mut'):
                    rep.ok('R11.2', 'Stream::%s receiver' % n, f['inputs'][0])
                else:
                    rep.viol('R11.2', 'core::Stream::%s|receiver' % n, 'observation method %s takes %s: it could advance the bound stream' % (n, f['inputs'][:1]), None)
                b = F.body(p)
                for c in b.calls:
                    if c.target.rsplit('::', 1)[-1] == 'next' and c.callee.get('tr') == 'std::iter::Iterator' \
                            and 'core::Stream' in (c.callee.get('g') or [''])[0]:
                        rs = b.roots(c.args[0])
                        if any(r[0] == 'call' and r[1].endswith('clone_box') for r in rs) and not any(r[0] == 'param' for r in rs):
                            rep.ok('R11.2', 'Stream::%s next()' % n, 'on a clone_box() copy')
                        elif any(r[0] == 'call' and (r[1].endswith('force') or r[1].endswith('into_iter') or r[1].endswith('::iter')) for r in rs) and not any(r[0] == 'param' for r in rs):
                            rep.ok('R11.2', 'Stream::%s next()' % n, 'on a derived iterator')
                        else:
                            rep.viol('R11.2', 'core::Stream::%s|advances-self' % n, 'default method %s calls next on %s' % (n, sorted(b.root_names(c.args[0]))), c.loc())
        for imp in impls:
            for n, p, _k in imp['items']:
                if n in ('peek', 'len', 'force', 'pythonic_index_isize', 'pythonic_slice', 'reversed', 'clone_box') and F.has_fn(p):
                    f = F.fns[p]
                    if f['inputs'] and f['inputs'][0].startswith('&') and not f['inputs'][0].startswith('&mut'):
                        rep.ok('R11.2', '%s receiver' % p, '&self')
                    else:
                        rep.viol('R11.2', p + '|receiver', 'takes %s' % f['inputs'][:1], None)
    # consumers of Rc<dyn Stream>: next on a dyn Stream reached from an Rc must come from get_mut / make_mut or a clone_box
    nchk = 0
    for b in F.all_bodies():
        for c in b.calls:
            if c.target.rsplit('::', 1)[-1] != 'next' or c.callee.get('tr') != 'std::iter::Iterator':
                continue
            g0 = (c.callee.get('g') or [''])[0]
            if 'dyn core::Stream' not in g0:
                continue
            if F.fns.get(b.path, {}).get('impl_trait') == 'std::iter::Iterator' or (F.fns.get(b.path, {}).get('inputs') or [''])[0].startswith('&mut'):
                rep.ok('R11.2', '%s: next on inner stream' % b.path, 'the enclosing method itself takes &mut self (advancing self advances its inner stream)')
                nchk += 1
                continue
            nchk += 1
            og = origins(b, c.args[0], passthru=('deref', 'deref_mut', 'as_mut', 'borrow_mut', 'unwrap', 'expect', 'as_deref_mut', 'branch', 'into_iter', 'by_ref'))
            names = {o[1].rsplit('::', 1)[-1] for o in og if o[0] == 'call'}
            direct_rc = any(o[0] in ('param', 'payload') and 'Rc<dyn core::Stream' in str(o[-1]) for o in og)
            if names & {'get_mut', 'clone_box', 'make_mut', 'from', 'new'} and not direct_rc:
                rep.ok('R11.2', '%s: next on dyn Stream' % b.path, 'receiver from %s' % sorted(names))
            elif any(o[0] in ('param', 'payload') and ('Box<dyn core::Stream' in str(o[-1]) or '&mut' in str(o[-1])) for o in og) and not direct_rc:
                rep.ok('R11.2', '%s: next on dyn Stream' % b.path, 'on an owned Box / &mut handed in by the caller')
            else:
                rep.viol('R11.2', b.path + '|next-on-shared', 'next() is called on a dyn Stream whose receiver is %s: a shared stream could be advanced' % sorted(map(str, og))[:3], c.loc())
    rep.floor('R11.2', 'next() calls on dyn Stream', nchk, 8)

    # ---------------- R11.3
    rep.rule('R11.3', 'every CFG cycle that contains a peek() call (Stream::peek / Peekable::peek) calls next() on every path back to '
             'that peek (paths through another peek() are judged there), or leaves the loop')
    n3 = 0
    for b in F.all_bodies():
        for c in b.calls:
            last = c.target.rsplit('::', 1)[-1]
            if last != 'peek' or not b.on_cycle(c.bb):
                continue
            if not (c.callee.get('tr') in ('core::Stream',) or 'Peekable' in c.target or 'Stream' in c.target):
                continue
            n3 += 1
            nexts = {x.bb for x in b.calls if x.target.rsplit('::', 1)[-1] in ('next', 'advance', 'next_if', 'next_if_eq', 'nth')}
            # a path that re-tests another peek() of the same body is judged at that peek (avoids infeasible
            # mixed paths through nested scanning loops)
            nexts |= {x.bb for x in b.calls if x.target.rsplit('::', 1)[-1] == 'peek' and x.bb != c.bb}
            # closures created in the loop that call next (e.g. and_then(|..| it.next())) count at their creation site
            ok = True
            bad = None
            for s in b.succ[c.bb]:
                seen = set()
                st = [s]
                while st:
                    x = st.pop()
                    if x in seen or x in nexts:
                        continue
                    seen.add(x)
                    if x == c.bb:
                        ok = False
                        bad = x
                        break
                    st.extend(b.succ[x])
                if not ok:
                    break
            if ok:
                rep.ok('R11.3', '%s: peek loop' % b.path, 'every path back to the peek passes next()')
            else:
                rep.viol('R11.3', b.path + '|peek-loop-no-progress', 'a loop re-evaluates peek() without consuming an element on some path: it never terminates once that path is taken', c.loc())
    rep.floor('R11.3', 'peek loops', n3, 3)

    # ---------------- R11.4
    rep.rule('R11.4', 'Range::len: the Sign::Minus arm equals the Sign::Plus arm under (start,end,step) -> (-start,-end,-step) as symbolic '
             'linear forms; every NInt division has a max(.,0)-clamped numerator (truncating division is only a floor there); '
             'Range::empty compares start <= end for a negative step and start >= end otherwise', exhaustive=True)
    if F.has_fn(rl):
        b = F.body(rl)
        m = find_match(F, rl, r'num::bigint::Sign', min_arms=3)
        forms = {}
        sy = Sym(b)
        for i, a in enumerate(m['arms']):
            sgn = pat_paths(a['pat'])[0].rsplit('::', 1)[-1]
            regn = arm_region(F, b, m, i)
            divs = [c for c in b.calls_in(regn) if c.callee.get('tr') == 'std::ops::Div']
            for c in divs:
                t = b.term(c.bb)
                f = sy.call(t, 0)
                forms.setdefault(sgn, []).append(f)
                if f[0] == 'div' and f[1][0] == 'max0':
                    rep.ok('R11.4', 'Range::len %s: clamped numerator' % sgn, show(f))
                else:
                    rep.viol('R11.4', rl + '|%s|unclamped-division' % sgn, 'truncating NInt division with a numerator that is not clamped by max(., 0): %s rounds toward zero for negative spans (empty ranges get length 1)' % show(f), c.loc())
        p, mi = forms.get('Plus'), forms.get('Minus')
        if p and mi and len(p) == 1 and len(mi) == 1 and p[0][0] == 'div' and mi[0][0] == 'div' and p[0][1][0] == 'max0' and mi[0][1][0] == 'max0' \
                and p[0][1][1][0] == 'lin' and mi[0][1][1][0] == 'lin' and p[0][2][0] == 'lin' and mi[0][2][0] == 'lin':
            Lp, Dp = p[0][1][1][1], p[0][2][1]
            Lm, Dm = mi[0][1][1][1], mi[0][2][1]
            if Lm == {k: v for k, v in mirror(Lp).items()} and Dm == mirror(Dp):
                rep.ok('R11.4', 'Range::len symmetry', 'Minus = mirror(Plus): %s' % show(mi[0]))
            else:
                rep.viol('R11.4', rl + '|asymmetric', 'negative-step length %s is not the mirror image of the positive-step length %s' % (show(mi[0]), show(p[0])), b.loc(0))
        else:
            rep.note('Range::len arms are not of the form max(L,0)/D with linear L, D: symmetry not analysable (no alarm raised by that sub-rule)')
    ef = 'streams::Range::empty'
    if F.has_fn(ef):
        b = F.body(ef)
        ms = [m for m in F.matches.get(ef, []) if m['kind'] == 'Normal' and len(m['arms']) >= 3]
        if ms:
            m = ms[0]
            for i, a in enumerate(m['arms']):
                ps = [x.rsplit('::', 1)[-1] for x in pat_paths(a['pat'])]
                names = [c.target.rsplit('::', 1)[-1] for c in b.calls_in(arm_region(F, b, m, i))]
                if 'None' in ps:
                    continue
                if 'Minus' in ps:
                    want = 'le'
                elif 'Plus' in ps or 'NoSign' in ps:
                    want = 'ge'
                else:
                    continue
                cmpn = [n for n in names if n in ('le', 'ge', 'lt', 'gt')]
                if cmpn == [want]:
                    rep.ok('R11.4', 'Range::empty %s' % ps, 'start %s end' % want)
                else:
                    rep.viol('R11.4', ef + '|%s' % ','.join(ps), 'Range::empty for %s compares with %s, expected start %s end' % (ps, cmpn, want), b.loc(0))
        else:
            rep.error('R11.4', 'Range::empty match not found')
    else:
        rep.error('R11.4', 'Range::empty missing')
    # ---------------- R11.6
    rep.rule('R11.6', 'lengths are never combined with Ord/Iterator min/max on Option<usize> (None, i.e. infinite, sorts below every Some: '
             'the infinite input would win a min); a next() result inside a loop of a default Stream method is inspected, not discarded '
             '(so counted skipping stops at exhaustion); Combinations compares its cursor length with the base before indexing, in '
             'next and in peek')
    n6 = 0
    for imp in impls:
        lf = F.impl_fn(imp, 'len')
        if not lf or not F.has_fn(lf):
            continue
        for bx in [F.body(lf)] + [F.body(c_) for c_ in F.closures_of(lf)]:
            for c in bx.calls:
                last = c.target.rsplit('::', 1)[-1]
                dty = bx.locals[c.dest[0]] if c.dest and c.dest[0] < len(bx.locals) else ''
                if last in ('min', 'max', 'min_by', 'max_by', 'min_by_key', 'max_by_key') and ('Option<usize>' in (c.da + str(c.callee.get('g'))) or 'Option<std::option::Option<usize>>' in dty or dty == 'std::option::Option<usize>' and 'Option' in str(c.callee.get('g'))):
                    rep.viol('R11.6', '%s|option-minmax' % lf, '%s combines Option<usize> lengths with %s: None (infinite) compares below Some, so a zip of a finite and an infinite stream would report an infinite length' % (lf, last), c.loc())
                n6 += 1
    rep.ok('R11.6', 'len overrides scanned', '%d call(s) in len overrides, none is a min/max over Option<usize>' % n6)
    trd = F.traits.get('core::Stream')
    for n, p_, has_default in (trd['items'] if trd else []):
        if not has_default or not F.has_fn(p_):
            continue
        b = F.body(p_)
        for c in b.calls:
            if c.target.rsplit('::', 1)[-1] != 'next' or not b.on_cycle(c.bb):
                continue
            d = c.dest[0]
            used = False
            for i in b.reach:
                for s_ in b.stmts(i):
                    if s_[0] == 'a' and ((s_[2][0] == 'discr' and s_[2][1][0] == d) or (s_[2][0] in ('use', 'ref') and any(isinstance(x, list) and x and x[0] in ('c', 'm') and x[1][0] == d for x in s_[2][1:2])) or (s_[2][0] == 'ref' and s_[2][2][0] == d)):
                        used = True
                t_ = b.term(i)
                if t_[0] == 'call' and any(a[0] in ('c', 'm') and a[1][0] == d for a in t_[2]):
                    used = True
            if used:
                rep.ok('R11.6', 'Stream::%s: next() in a loop' % n, 'its result is inspected')
            else:
                rep.viol('R11.6', 'core::Stream::%s|next-result-discarded' % n, 'a loop in the default %s calls next() and throws the result away: skipping a huge count keeps looping after the stream is exhausted' % n, c.loc())
    for fn in ('<streams::Combinations as std::iter::Iterator>::next', '<streams::Combinations as core::Stream>::peek'):
        if not F.has_fn(fn):
            rep.error('R11.6', 'missing ' + fn)
            continue
        b = F.body(fn)
        idx = []
        for bx in [b] + [F.body(c_) for c_ in F.closures_of(fn)]:
            idx += [(bx, c) for c in bx.calls if c.target.rsplit('::', 1)[-1] == 'index' and 'core::Obj' in str(c.callee.get('g'))]
        lens = [c for c in b.calls if c.target.endswith('::len')]
        cmpb = [i for i in b.reach for s_ in b.stmts(i) if s_[0] == 'a' and s_[2][0] == 'bin' and s_[2][1] in ('Gt', 'Lt', 'Ge', 'Le') and
                all(any(o[0] == 'call' and o[1].endswith('::len') for o in origins(b, x)) for x in s_[2][2:4])]
        if idx and cmpb:
            rep.ok('R11.6', fn, 'cursor length compared with the base length before the base is indexed')
        elif idx:
            rep.viol('R11.6', fn + '|unguarded-base-index', '%s indexes the base by cursor values without comparing the cursor length with the base length: choosing more elements than available panics' % fn, idx[0][1].loc())
    from .streamfields import range_reversed_rule
    range_reversed_rule(F, rep, 'R11.9')

    rep.undecided += ['closed-form len of Permutations / Subsequences / CartesianPower vs their next()', 'values produced by lazy adaptors',
                      'index/slice overrides of individual streams as functions of values']
    return META
