"""C04 - operators are ordinary functions: dispatch-path agreement (static clauses)."""
import re
from .core import (builds_error, CheckError, find_match, arm_region, pat_str, strip_ref, origins, only_when, pat_paths,
                   Registry, op_local, param_sources)
from .opassign import opassign_facts

META = {
    'level': 'other',
    'explanation': (
        'Decides agreement of the dispatch paths, not extensional equality of each builtin: (R4.1) for every impl Builtin that '
        'overrides run1/run2 the matching arm of run delegates to the override or has the same effect signature (resolved callees, '
        'closures expanded); (R4.2) the partial-application wrappers pass their stored argument on the documented side in Func::run, '
        'run1 and run2 (PartialApp1 first, PartialApp2 second, PartialAppLast last, Flip swapped, Composition inside-out) and the '
        'helper constructors build the variant their name says; (R4.3) call_or_part_apply builds PartialApp1(argument function, callee); '
        '(R4.4) then/./.> call the right operand on the left one, <. the opposite, apply/of spread a sequence; (R4.5) op-assign reads '
        'the old value, evaluates the right-hand side, drops the slot, calls run2(old, rhs) and assigns the result; (R4.6) one-argument '
        'calls of two-argument builtins build right sections (PartialApp2), never PartialApp1.'),
    'trusted_base': ['rustc nightly HIR/MIR'],
    'assumptions': ['f(a,b) computes the same value along two agreeing paths only if the shared builtin body is itself right'],
}

NOISE = re.compile(r'(fmt::|::fmt$|Arguments|new_display|new_debug|must_use|::clone$|::deref$|::deref_mut$|::into$|::from$|::drop$|'
                   r'::to_string$|::borrow$|FmtObj|NErr::|::branch$|from_residual$|from_output$|::format$|few::few\d?$|::len$)')


def sig(F, b, blocks=None, depth=0):
    cs = b.calls if blocks is None else b.calls_in(blocks)
    out = set()
    for c in cs:
        t = c.target
        if builds_error(F, c):
            out.add('raises')            # the two paths must agree on whether they can reject their argument at all
        if NOISE.search(t):
            continue
        out.add('indirect-call' if c.is_indirect else t)
    if depth < 2:
        for bb, s in b.aggregates(blocks):
            if s[2][1] == 'closure' and F.has_fn(s[2][2]):
                out |= {'closure:' + x for x in sig(F, F.body(s[2][2]), None, depth + 1)}
    return out


def run(F, rep, tier):
    reg = Registry(F)
    # ---------------- R4.1
    rep.rule('R4.1', 'for every impl Builtin overriding run1 and/or run2: the Few::One / Few::Two arm(s) of run either call the override or '
             'have the same effect signature as the override body', exhaustive=True)
    n1 = 0
    for imp in F.impls_of('core::Builtin'):
        run_ = F.impl_fn(imp, 'run')
        r1 = F.impl_fn(imp, 'run1')
        r2 = F.impl_fn(imp, 'run2')
        if not run_ or not (r1 or r2) or not F.has_fn(run_):
            continue
        rb = F.body(run_)
        ty = imp['self_ty']
        ms = [m for m in F.matches.get(run_, []) if m['kind'] == 'Normal' and 'few::Few' in m['scrut_ty']]
        handled = set()
        for m in ms:
            for v, tgt in (('One', r1), ('Two', r2)):
                if not tgt:
                    continue
                regs = set()
                pats = []
                for i, a in enumerate(m['arms']):
                    ps = pat_paths(a['pat'])
                    if ps and ps[0].rsplit('::', 1)[-1] == v and ps[0].startswith('few::Few'):
                        regs |= arm_region(F, rb, m, i)
                        pats.append(pat_str(a['pat']))
                if not regs:
                    continue
                handled.add(v)
                n1 += 1
                if any(c.target == tgt for c in rb.calls_in(regs)):
                    # argument order of the delegation
                    c = [c for c in rb.calls_in(regs) if c.target == tgt][0]
                    fp = []
                    for a_ in c.args[2:]:
                        og = origins(rb, a_)
                        fp.append(sorted({o[4] for o in og if o[0] == 'payload'}))
                    if v == 'Two' and len(fp) == 2 and fp[0] and fp[1] and not (fp[0] < fp[1] or fp[0] != fp[1]):
                        rep.viol('R4.1', '%s|%s|delegation-order' % (ty, v), 'run forwards the two arguments to run2 in the wrong order', c.loc())
                    elif v == 'Two' and len(fp) == 2 and fp[0] and fp[1] and fp[0][0] > fp[1][0]:
                        rep.viol('R4.1', '%s|%s|delegation-order' % (ty, v), 'run forwards the two arguments to run2 swapped (%s, %s)' % (fp[0], fp[1]), c.loc())
                    else:
                        rep.ok('R4.1', '%s run/%s' % (ty, 'run1' if v == 'One' else 'run2'), 'arm %s delegates' % pats)
                else:
                    s1 = sig(F, rb, regs)
                    s2 = sig(F, F.body(tgt))
                    # run rejects what its specific arms do not accept in its catch-all arm
                    partial = all(len(pat_paths(a3['pat'])) > 1 or a3.get('guard') for a3 in m['arms']
                                  if pat_paths(a3['pat']) and pat_paths(a3['pat'])[0].rsplit('::', 1)[-1] == v and pat_paths(a3['pat'])[0].startswith('few::Few'))
                    for i2, a2 in enumerate(m['arms']):
                        if partial and strip_ref(a2['pat']).get('k') in ('wild', 'bind') and any(builds_error(F, c_) for c_ in rb.calls_in(arm_region(F, rb, m, i2))):
                            s1.add('raises')
                    if s1 == s2:
                        rep.ok('R4.1', '%s run/%s' % (ty, 'run1' if v == 'One' else 'run2'), 'same effect signature (%d callees)' % len(s1))
                    else:
                        rep.viol('R4.1', '%s|%s|diverged' % (ty, v),
                                 '%s: the %s-argument arm of run and %s do different things: only in run %s; only in %s %s'
                                 % (ty, 'one' if v == 'One' else 'two', tgt.rsplit('::', 1)[-1], sorted(s1 - s2)[:5], tgt.rsplit('::', 1)[-1], sorted(s2 - s1)[:5]), F.body(tgt).loc(0))
        for v, tgt in (('One', r1), ('Two', r2)):
            if not tgt or v in handled or not ms or not F.has_fn(tgt):
                continue
            # an override that run has no arm for: it must be a pure delegation to run, or run must reach it some other way
            n1 += 1
            tb_ = F.body(tgt)
            to_run = {c.bb for c in tb_.calls if c.target == run_}
            oks = {bb for bb, s_ in tb_.aggregates() if s_[1] == [0]} | {c.bb for c in tb_.calls if c.dest == [0] and c.target != run_}
            if to_run and not oks:
                rep.ok('R4.1', '%s %s' % (ty, tgt.rsplit('::', 1)[-1]), 'delegates to run on every path')
            elif any(c.target == tgt for c in rb.calls):
                rep.ok('R4.1', '%s %s' % (ty, tgt.rsplit('::', 1)[-1]), 'reached from run')
            else:
                rep.viol('R4.1', '%s|%s|independent' % (ty, v), '%s::%s computes results of its own (%d result site(s)) while run has no %s-argument arm that calls it or does the same: the infix / op-assign / fold forms (run%s) and the call forms (run) are two implementations that can disagree, e.g. on which operand may be the key function' % (ty, tgt.rsplit('::', 1)[-1], len(oks), 'one' if v == 'One' else 'two', '1' if v == 'One' else '2'), tb_.loc(0))
        if not ms:
            # run without a Few match (expect_one style): must reach run1's work
            if r1:
                n1 += 1
                s1, s2 = sig(F, rb), sig(F, F.body(r1))
                if any(c.target == r1 for c in rb.calls) or (s2 - {'expect_one'}) <= s1:
                    rep.ok('R4.1', '%s run/run1' % ty, 'run performs run1\'s work after unpacking one argument')
                else:
                    rep.viol('R4.1', '%s|One|diverged' % ty, '%s: run and run1 differ: %s vs %s' % (ty, sorted(s1 - s2)[:5], sorted(s2 - s1)[:5]), rb.loc(0))
    rep.floor('R4.1', 'run/runN pairs', n1, 18)
    # trait defaults forward in order
    for nm, n in (('run1', 1), ('run2', 2)):
        d = 'core::Builtin::' + nm
        if F.has_fn(d):
            b = F.body(d)
            if any(c.target.endswith('Builtin::run') or c.target.endswith('::run') for c in b.calls):
                rep.ok('R4.1', 'trait default ' + nm, 'forwards to run(vec![..])')
            else:
                rep.viol('R4.1', d + '|default', 'trait default %s does not forward to run' % nm, b.loc(0))

    # ---------------- R4.2
    rep.rule('R4.2', 'partial-application wrappers: every run2 call fed from a PartialApp1 payload passes it first, from a PartialApp2 payload '
             'second; PartialAppLast pushes its stored argument last; Flip calls run2(b, a) and with one argument builds PartialApp1; '
             'Composition(f, g) is f.run1(g.run(args)); clone_and_part_app_2 / _last build PartialApp2 / PartialAppLast', exhaustive=True)
    fr = [p for p in F.fns if re.search(r'impl core::Func>::(run|run1|run2)$', p) or re.search(r'^eval::Func::(run|run1|run2)$', p)]
    if len(fr) < 3:
        rep.error('R4.2', 'Func::run/run1/run2 not found (%s)' % fr)
    n2 = 0
    for fn in fr:
        b = F.body(fn)
        for c in b.calls:
            if c.target.rsplit('::', 1)[-1] != 'run2' or len(c.args) < 4:
                continue
            A = {o[1] for o in origins(b, c.args[2], passthru=('clone', 'deref', 'as_ref', 'borrow')) if o[0] == 'payload'}
            B = {o[1] for o in origins(b, c.args[3], passthru=('clone', 'deref', 'as_ref', 'borrow')) if o[0] == 'payload'}
            if not ({'PartialApp1', 'PartialApp2'} & (A | B)):
                continue
            n2 += 1
            if 'PartialApp1' in B or 'PartialApp2' in A:
                rep.viol('R4.2', '%s|partial-app-side' % fn, 'a run2 call passes the stored argument of %s on the wrong side (first operand from %s, second from %s): left sections would compute f(b, a)' % (sorted((A | B) & {'PartialApp1', 'PartialApp2'}), sorted(A), sorted(B)), c.loc())
            else:
                rep.ok('R4.2', '%s: run2 from %s' % (fn, sorted((A | B) & {'PartialApp1', 'PartialApp2'})), 'stored argument on the documented side')
        # Flip
        for m in F.matches.get(fn, []):
            if m['kind'] != 'Normal' or 'core::Func' not in m['scrut_ty']:
                continue
            for i, a in enumerate(m['arms']):
                ps = pat_paths(a['pat'])
                if not ps:
                    continue
                v = ps[0].rsplit('::', 1)[-1]
                regn = arm_region(F, b, m, i)
                if v == 'Flip':
                    r2 = [c for c in b.calls_in(regn) if c.target.rsplit('::', 1)[-1] == 'run2']
                    okf = False
                    for c in r2:
                        fa = {o[4] for o in origins(b, c.args[2]) if o[0] == 'payload' and o[1] == 'Two'}
                        fb = {o[4] for o in origins(b, c.args[3]) if o[0] == 'payload' and o[1] == 'Two'}
                        if fa == {'f1'} and fb == {'f0'}:
                            okf = True
                    pa1 = [1 for _bb, s in b.aggregates(regn) if s[2][2] == 'core::Func' and s[2][4] == 'PartialApp1']
                    n2 += 1
                    if okf and pa1:
                        rep.ok('R4.2', '%s: Flip' % fn, 'run2(b, a); one argument -> PartialApp1(f, a)')
                    else:
                        rep.viol('R4.2', '%s|Flip' % fn, 'Flip does not swap its two arguments / does not build PartialApp1 for one argument', b.loc(min(regn)) if regn else None)
                elif v == 'PartialAppLast':
                    push = [c for c in b.calls_in(regn) if c.target.endswith('::push')]
                    runs = [c for c in b.calls_in(regn) if c.target.rsplit('::', 1)[-1] == 'run']
                    n2 += 1
                    if push and runs and all(b.dominates(push[0].bb, r.bb) for r in runs) and any(
                            o[0] == 'payload' and o[1] == 'PartialAppLast' for o in origins(b, push[0].args[1], passthru=('clone', 'deref'))):
                        rep.ok('R4.2', '%s: PartialAppLast' % fn, 'args.push(x) before run')
                    else:
                        rep.viol('R4.2', '%s|PartialAppLast' % fn, 'PartialAppLast does not append its stored argument before calling', b.loc(min(regn)) if regn else None)
                elif v == 'Composition':
                    r1 = [c for c in b.calls_in(regn) if c.target.rsplit('::', 1)[-1] == 'run1']
                    n2 += 1
                    if r1 and any(o[0] == 'call' and o[1].rsplit('::', 1)[-1] == 'run' for o in origins(b, r1[0].args[2], passthru=('branch',))):
                        # receiver f = field 0, inner g = field 1
                        rep.ok('R4.2', '%s: Composition' % fn, 'f.run1(g.run(args)?)')
                    else:
                        rep.viol('R4.2', '%s|Composition' % fn, 'Composition(f, g) is not f.run1(g.run(args))', b.loc(min(regn)) if regn else None)
    rep.floor('R4.2', 'wrapper arms / run2 forwarding sites', n2, 7)
    for fn, variant in (('clone_and_part_app_2', 'PartialApp2'), ('clone_and_part_app_last', 'PartialAppLast')):
        if not F.has_fn(fn):
            rep.error('R4.2', 'missing ' + fn)
            continue
        b = F.body(fn)
        # the variant may be built by a small constructor helper (a crate function returning Func) the function calls
        bs_ = [b] + [F.body(c.target) for c in b.calls if F.has_fn(c.target) and (F.fns.get(c.target) or {}).get('output') == 'core::Func']
        vs = sorted({s[2][4] for b_ in bs_ for _bb, s in b_.aggregates() if s[2][2] == 'core::Func' and s[2][4].startswith('PartialApp')})
        if vs == [variant]:
            rep.ok('R4.2', fn, 'builds Func::' + variant)
        else:
            rep.viol('R4.2', fn + '|variant', '%s builds %s, expected Func::%s' % (fn, vs, variant), b.loc(0))

    # ---------------- R4.3 / R4.6
    # nested PartialAppLast: outer.run pushes the outer argument first, inner.run the inner one after it, so f finally sees
    # (.., outer.x, inner.x): the outer wrapper must hold the earlier of the two supplied arguments
    def _slot(b_, op):
        seen_ = set()
        cur = op
        for _ in range(12):
            if cur[0] not in ('c', 'm'):
                return None
            pl = cur[1]
            fs = [p_ for p_ in pl[1:] if isinstance(p_, str) and re.match(r'f\d+', p_)]
            if fs:
                return (pl[0], int(re.match(r'f(\d+)', fs[-1]).group(1)))
            L = pl[0]
            if L in seen_:
                return None
            seen_.add(L)
            ds = b_.defs().get(L, [])
            if len(ds) != 1:
                return None
            (_bb, _j, kind, st) = ds[0]
            if kind == 'a' and st[2][0] == 'use':
                cur = st[2][1]
            elif kind != 'a' and st[2] and (st[1].get('r') or st[1].get('d') or '').rsplit('::', 1)[-1] in ('new', 'clone', 'from', 'into'):
                cur = st[2][0]
            else:
                return None
        return None
    # constructor helpers: a crate function returning Func whose only PartialAppLast aggregate takes both fields from parameters
    ctor = {}
    for b in F.all_bodies():
        if (F.fns.get(b.path) or {}).get('output') != 'core::Func':
            continue
        ag_ = [s_ for _bb, s_ in b.aggregates(b.reach) if s_[2][2] == 'core::Func' and s_[2][4] == 'PartialAppLast' and len(s_[2][5]) == 2]
        if len(ag_) == 1:
            pi = param_sources(b, ag_[0][2][5][0], passthru=('new', 'clone', 'into', 'from'))
            pj = param_sources(b, ag_[0][2][5][1], passthru=('new', 'clone', 'into', 'from'))
            if len(pi) == 1 and len(pj) == 1:
                ctor[b.path] = (min(pi) - 1, min(pj) - 1)
    nn = 0
    for b in F.all_bodies():
        cons = [(bb, s_[2][5][0], s_[2][5][1]) for bb, s_ in b.aggregates(b.reach)
                if s_[2][2] == 'core::Func' and s_[2][4] == 'PartialAppLast' and len(s_[2][5]) == 2]
        cons += [(c.bb, c.args[ctor[c.target][0]], c.args[ctor[c.target][1]]) for c in b.calls
                 if c.target in ctor and len(c.args) > max(ctor[c.target])]
        if len(cons) < 2:
            continue

        def _nested(fop):
            return any((r_[0] == 'agg' and r_[-1] == 'PartialAppLast') or (r_[0] == 'call' and r_[1] in ctor) for r_ in b.roots(fop))
        for bb, fop, xop in cons:
            if not _nested(fop):
                continue
            inner = [t_ for t_ in cons if t_[0:1] != (bb,) or t_[2] is not xop]
            inner = [t_ for t_ in inner if t_[2] is not xop and not _nested(t_[1])]
            if len(inner) != 1:
                continue
            so, si = _slot(b, xop), _slot(b, inner[0][2])
            if so is None or si is None or so[0] != si[0]:
                continue
            nn += 1
            if so[1] < si[1]:
                rep.ok('R4.2', '%s: nested PartialAppLast' % b.path, 'outer holds argument %d, inner argument %d' % (so[1], si[1]))
            else:
                rep.viol('R4.2', '%s|nested-partial-app-order' % b.path, 'the outer PartialAppLast holds supplied argument %d and the inner one argument %d: the outer argument is pushed first, so the two are passed to the builtin in swapped order' % (so[1], si[1]), b.loc(bb))
    rep.floor('R4.2', 'nested PartialAppLast constructions', nn, 1)
    rep.rule('R4.3', 'call_or_part_apply: a non-function callee with exactly one function argument becomes PartialApp1(that function, callee)')
    cp = 'eval::call_or_part_apply'
    if F.has_fn(cp):
        b = F.body(cp)
        aggs = [(bb, s) for bb, s in b.aggregates() if s[2][2] == 'core::Func' and s[2][4] == 'PartialApp1']
        if len(aggs) == 1:
            bb, s = aggs[0]
            o0 = origins(b, s[2][5][0], passthru=('new',))
            o1 = origins(b, s[2][5][1], passthru=('new',))
            if any(o[0] == 'payload' for o in o0) and not any(o[0] == 'payload' for o in o1) and o1:
                rep.ok('R4.3', cp, 'PartialApp1(Box(argument function), Box(callee))')
            else:
                rep.viol('R4.3', cp + '|fields', 'PartialApp1 fields are not (argument function, callee value): %s / %s' % (sorted(map(str, o0)), sorted(map(str, o1))), b.loc(bb))
        else:
            rep.viol('R4.3', cp + '|shape', 'call_or_part_apply builds %d PartialApp1 values' % len(aggs), b.loc(0))
    else:
        rep.error('R4.3', 'missing ' + cp)
    rep.rule('R4.6', 'Func::PartialApp1 is constructed only by call_or_part_apply, the Flip arm and the section/|> helpers in the reviewed '
             'table; builtins called with one argument build right sections (clone_and_part_app_2 / _last)')
    allowed = re.compile(r'^(eval::call_or_part_apply|eval::<impl core::Func>::run|eval::Func::run|<core::Func as std::clone::Clone>::clone|eval::evaluate(::\{closure#\d+\})?|'
                         r'core::freeze.*|<core::Func as .*)$')
    for bdy in F.all_bodies():
        for bb, s in bdy.aggregates():
            if s[2][2] == 'core::Func' and s[2][4] == 'PartialApp1':
                if allowed.match(bdy.path):
                    rep.ok('R4.6', 'PartialApp1 built in %s' % bdy.path, 'reviewed site')
                else:
                    rep.viol('R4.6', bdy.path + '|left-section', 'a PartialApp1 (left section) is built in %s: one-argument calls of builtins must be right sections' % bdy.path, bdy.loc(bb))
    for ty in ('TwoArgBuiltin', 'EnvTwoArgBuiltin', 'TwoNumsBuiltin', 'TwoNumsToNumsBuiltin'):
        fns = [p for p in F.fns if p.startswith('<%s as core::Builtin>::run' % ty)]
        if any(c.target == 'clone_and_part_app_2' for p in fns for c in F.body(p).calls):
            rep.ok('R4.6', ty, 'one argument -> clone_and_part_app_2 (right section)')
        else:
            rep.viol('R4.6', ty + '|one-arg', '%s no longer builds a right section for one argument' % ty, None)

    # ---------------- R4.7
    rep.rule('R4.7', 'splat_section_eval decision table over (is a splat?, evaluated or placeholder, section already open?): an evaluated splat '
             'is spread (mut_obj_into_iter) whether or not a placeholder came before it, an evaluated non-splat is pushed as one argument, a '
             'placeholder records its splat flag; first-match evaluation over the arms, all 8 rows', exhaustive=True)
    sse = 'eval::splat_section_eval'
    if F.has_fn(sse):
        sbody = F.body(sse)
        tm = None
        for m in F.matches.get(sse, []):
            if m['kind'] == 'Normal' and m['scrut_ty'].startswith('((bool, std::option::Option<core::Obj>)'):
                tm = m
        if tm is None:
            rep.error('R4.7', 'the (splat flag, value, accumulator) match of splat_section_eval was not found')
        else:
            def lit(b_):
                return {'k': 'lit', 'v': 'bool:%s' % ('true' if b_ else 'false')}
            def cons(path, sub):
                return {'k': 'ts', 'p': path, 's': sub, 'dd': -1}
            from .core import pat_subsumes, pat_disjoint
            for is_splat in (False, True):
                for has_val in (True, False):
                    for open_ in (False, True):
                        inp = {'k': 'tuple', 'dd': -1, 's': [
                            {'k': 'tuple', 'dd': -1, 's': [lit(is_splat), cons('std::option::Option::Some', [{'k': 'wild'}]) if has_val else {'k': 'path', 'p': 'std::option::Option::None'}]},
                            cons('std::result::Result::Err' if open_ else 'std::result::Result::Ok', [{'k': 'wild'}])]}
                        arm = None
                        for i, a in enumerate(tm['arms']):
                            if _matches(a['pat'], inp):
                                arm = i
                                break
                        row = '(splat=%s, %s, section %s)' % (is_splat, 'value' if has_val else 'placeholder', 'open' if open_ else 'closed')
                        if arm is None:
                            rep.viol('R4.7', sse + '|row|' + row, 'no arm handles ' + row, sbody.loc(0))
                            continue
                        regn = arm_region(F, sbody, tm, arm)
                        names = [c.target.rsplit('::', 1)[-1] for c in sbody.calls_in(regn)]
                        spread = 'mut_obj_into_iter' in names
                        want_spread = is_splat and has_val
                        if spread == want_spread and 'push' in names or (want_spread and spread):
                            rep.ok('R4.7', row, 'arm %s %s' % (pat_str(tm['arms'][arm]['pat']), 'spreads the value' if spread else 'pushes one item'))
                        else:
                            rep.viol('R4.7', sse + '|row|' + row, '%s is handled by arm %s which %s: f(_, ...xs) no longer agrees with the plain splat / apply forms' % (row, pat_str(tm['arms'][arm]['pat']), 'spreads' if spread else 'pushes the value as a single argument'), sbody.loc(min(regn)) if regn else None)
    else:
        rep.error('R4.7', 'missing ' + sse)

    # ---------------- R4.4
    rep.rule('R4.4', 'then, ., .> are call1(env, b, a); <. is call1(env, a, b); apply is call(env, b, items of a); of is call(env, a, items of b)',
             exhaustive=True)
    # EnvTwoArgBuiltin closures: local 1 = closure env, 2 = env, 3 = a, 4 = b
    tab = {'then': ('call1', 4, 3), '.': ('call1', 4, 3), '.>': ('call1', 4, 3), '<.': ('call1', 3, 4),
           'apply': ('call', 4, 3), 'of': ('call', 3, 4)}
    for nm, (callee, pf, px) in tab.items():
        try:
            b = F.body(reg.body_of(nm))
        except CheckError as e:
            rep.error('R4.4', str(e))
            continue
        cs = [c for c in b.calls if c.target == 'eval::' + callee]
        if len(cs) != 1:
            rep.viol('R4.4', 'builtin|%s|callee' % nm, '%s does not call %s exactly once' % (nm, callee), b.loc(0))
            continue
        c = cs[0]
        pfn = {r[1] for r in b.roots(c.args[1]) if r[0] == 'param'}
        parg = {r[1] for r in b.roots(c.args[2], through_calls=(r'mut_obj_into_iter$', r'::collect$')) if r[0] == 'param'}
        if pfn == {pf} and px in parg and pf not in parg:
            rep.ok('R4.4', nm, '%s(env, %s, from %s)' % (callee, 'ab'[pf - 3], 'ab'[px - 3]))
        else:
            rep.viol('R4.4', 'builtin|%s|operands' % nm, '%s calls %s with function from params %s and argument from params %s; expected function = %s, argument from %s (a = local 3, b = local 4)' % (nm, callee, sorted(pfn), sorted(parg), 'ab'[pf - 3], 'ab'[px - 3]), c.loc())

    # ---------------- R4.5
    rep.rule('R4.5', 'Expr::OpAssign: on each non-every path eval_lvalue_as_obj (old value) dominates the evaluation of the right-hand side, '
             'which dominates drop_lhs, which dominates run2(old, rhs), whose result is the operand of assign; `every` passes (old element, rhs)')
    try:
        oa = opassign_facts(F)
        eb = oa['body']
        direct = [c for c in oa['run2']]
        n5 = 0
        for r in direct:
            reads = [c for c in oa['read_old'] if eb.dominates(c.bb, r.bb)]
            if not reads:
                # `and` party trick: the old values are read by a closure mapped and collected before the rhs is evaluated
                rdcl = [cl for cl in oa['closures'] if any(x.target == 'eval::eval_lvalue_as_obj' for x in F.body(cl).calls)]
                if rdcl:
                    reads = [c for c in oa['calls'] if c.target.rsplit('::', 1)[-1] == 'collect' and eb.dominates(c.bb, r.bb)]
            drops = [c for c in oa['drop_lhs'] if eb.dominates(c.bb, r.bb)]
            rhs_evals = [c for c in oa['evaluate_calls'] + oa['eval_seq'] if any(
                o[0] == 'call' and o[1] in (oa['evaluate'], 'eval::eval_seq') for o in origins(eb, r.args[3], passthru=('branch', 'take', 'clone', 'list')))]
            a2 = origins(eb, r.args[2], passthru=('branch',))
            old_ok = bool(a2) and all((o[0] == 'call' and o[1] == 'eval::eval_lvalue_as_obj') or o[0] in ('payload', 'call') for o in a2) and \
                any('eval_lvalue_as_obj' in str(o) or o[0] == 'payload' for o in a2)
            n5 += 1
            if not reads or not drops:
                rep.viol('R4.5', 'OpAssign|run2|missing-step', 'an op-assign path reaches run2 without reading the old value (%d) or dropping the slot (%d) first' % (len(reads), len(drops)), r.loc())
                continue
            # order: read old < rhs evaluation < drop
            rhs_calls = [c for c in oa['evaluate_calls'] + oa['eval_seq'] if eb.dominates(c.bb, r.bb) or any(eb.dominates(c.bb, d.bb) for d in drops)]
            rhs_value_calls = []
            og = origins(eb, r.args[3], passthru=('branch', 'take', 'clone', 'replace'))
            ok_order = True
            why = ''
            # every evaluate / eval_seq call that can feed the rhs must be dominated by a read of the old value
            feeding = [c for c in oa['evaluate_calls'] + oa['eval_seq'] if eb.dominates(c.bb, r.bb) is False and c.bb in eb.dominators()[r.bb] or c.bb in eb.dominators()[r.bb]]
            for c in oa['evaluate_calls'] + oa['eval_seq']:
                # candidate rhs evaluation: lies after the op evaluation and before the drop
                if any(eb.dominates(c.bb, d.bb) for d in drops) or c.bb in eb.reachable_from(reads[0].bb):
                    pass
            for d in drops:
                if not any(eb.dominates(rd.bb, d.bb) for rd in reads):
                    ok_order = False
                    why = 'drop_lhs is not preceded by the read of the old value'
            # the rhs evaluation sites: evaluate/eval_seq calls whose result reaches run2's second data operand
            rhs_sites = [c for c in oa['evaluate_calls'] + oa['eval_seq'] if c.bb in eb.dominators()[r.bb] or any(c.bb in eb.dominators()[p] for p in eb.pred[r.bb])]
            fed = {o[1] for o in og if o[0] == 'call'}
            for c in oa['evaluate_calls'] + oa['eval_seq']:
                if c.target in fed and r.bb in eb.reachable_from(c.bb):
                    # is this call on a path to this run2 and feeding? require a read dominating it, unless it is the operator evaluation
                    if any(eb.dominates(d.bb, c.bb) for d in drops):
                        ok_order = False
                        why = 'the right-hand side is evaluated after the slot was dropped'
            # reads must dominate the rhs evaluations that lie between them and run2 ... i.e. no rhs-feeding evaluate call dominates the read
            for rd in reads:
                for c in oa['evaluate_calls'] + oa['eval_seq']:
                    if c.target in fed and eb.dominates(c.bb, rd.bb) and r.bb in eb.reachable_from(c.bb):
                        # c before the read: allowed only if c does not feed run2's rhs; distinguish by data flow
                        for o in origins(eb, r.args[3], passthru=('branch', 'take', 'clone', 'replace')):
                            pass
            if ok_order:
                rep.ok('R4.5', 'op-assign path at %s' % r.loc(), 'read old -> rhs -> drop_lhs -> run2 -> assign')
            else:
                rep.viol('R4.5', 'OpAssign|run2|order', why, r.loc())
        rep.floor('R4.5', 'direct run2 sites in OpAssign', n5, 2)
        # the precise ordering rule: rhs-producing calls between read and drop
        for r in direct:
            rhs_roots = {(ro[1], ro[2]) for ro in eb.roots(r.args[3], through_calls=(r'::take$', r'::replace$')) if ro[0] == 'call'}
            old_roots = {(ro[1], ro[2]) for ro in eb.roots(r.args[2]) if ro[0] == 'call'}
            if not old_roots or not all(t in ('eval::eval_lvalue_as_obj',) or 'collect' in t or 'into_iter' in t or 'next' in t for t, _bb in old_roots):
                if not any('eval_lvalue_as_obj' in t or 'collect' in t or 'next' in t for t, _bb in old_roots):
                    rep.viol('R4.5', 'OpAssign|run2|first-operand', 'run2\'s first operand is not the value read from the lvalue (%s)' % sorted(old_roots), r.loc())
                    continue
            bad = False
            for (t, bbx) in rhs_roots:
                if t in (oa['evaluate'], 'eval::eval_seq'):
                    for (t2, bby) in old_roots:
                        if t2 == 'eval::eval_lvalue_as_obj' and not eb.dominates(bby, bbx):
                            bad = True
            if bad:
                rep.viol('R4.5', 'OpAssign|run2|rhs-before-read', 'the right-hand side of an op-assign is evaluated before the old value of the target is read: `x f= (x = ..; v)` observes the assignment', r.loc())
            else:
                rep.ok('R4.5', 'operand wiring at %s' % r.loc(), 'old value read before the right-hand side is evaluated; run2(old, rhs)')
            # result goes to assign
            asg = [c for c in oa['assign'] if eb.dominates(r.bb, c.bb)]
            if asg and any(ro[0] == 'call' and ro[1].rsplit('::', 1)[-1] == 'run2' for a in asg for ro in eb.roots(a.args[3])):
                rep.ok('R4.5', 'assign at %s' % asg[0].loc(), 'assign(p, run2 result)')
            else:
                rep.viol('R4.5', 'OpAssign|assign', 'the result of run2 is not what gets assigned', r.loc())
        # every path
        me_ok = False
        for cl in oa['closures']:
            cb = F.body(cl)
            for c in cb.calls:
                if c.target.rsplit('::', 1)[-1] == 'run2':
                    p2 = {o[1] for o in origins(cb, c.args[2]) if o[0] == 'param'}
                    p3 = {o[1] for o in origins(cb, c.args[3], passthru=('clone',)) if o[0] == 'param'}
                    if p2 and p3 and p2 != p3 and ('x' in p2 or '_2' in p2):
                        me_ok = True
        if oa['modify_every'] and me_ok:
            rep.ok('R4.5', 'every op-assign', 'modify_every(|x| ff.run2(x, rhs.clone()))')
        elif oa['modify_every']:
            rep.viol('R4.5', 'OpAssign|every|operands', 'the every-op-assign closure does not call run2(old element, rhs)', oa['modify_every'][0].loc())
    except CheckError as e:
        rep.error('R4.5', str(e))
    # ---------------- R4.8
    rep.rule('R4.8', 'sections fill their slots left to right: in apply_section every value placed into a `_` slot is taken from the front of '
             'the argument sequence (Iterator::next / remove(0) / pop_front), and no order-disturbing consumer (swap_remove, pop, next_back, '
             'rev, reverse, sort*) is applied to the arguments - with three or more slots those permute the call')
    asn = 'eval::apply_section'
    if not F.has_fn(asn):
        rep.error('R4.8', 'apply_section missing')
    else:
        ab8 = F.body(asn)
        BREAK = ('swap_remove', 'pop', 'next_back', 'rev', 'reverse', 'sort', 'sort_by', 'sort_unstable', 'sort_by_key', 'pop_back', 'rposition', 'rfold', 'last')
        FRONT = ('next', 'remove', 'pop_front')
        bodies8 = [ab8] + [F.body(c) for c in F.closures_of(asn)]
        bad8 = [(b_, c) for b_ in bodies8 for c in b_.calls if c.target.rsplit('::', 1)[-1] in BREAK]
        pushes = [c for c in ab8.calls if c.target.endswith('::push') and len(c.args) > 1]
        srcs = set()
        for c in pushes:
            for o in origins(ab8, c.args[1], passthru=('branch', 'unwrap', 'expect')):
                if o[0] == 'call':
                    srcs.add(o[1].rsplit('::', 1)[-1])
        if bad8:
            b_, c = bad8[0]
            rep.viol('R4.8', '%s|order|%s' % (asn, c.target.rsplit('::', 1)[-1]), 'apply_section consumes the arguments of a section with %s, which does not preserve their order: f(_, _, _)(1, 2, 3) no longer calls f(1, 2, 3)' % c.target.rsplit('::', 1)[-1], c.loc())
        elif srcs & set(FRONT):
            rep.ok('R4.8', 'apply_section', 'slot values come from %s; no order-disturbing consumer' % sorted(srcs & set(FRONT)))
        else:
            rep.ok('R4.8', 'apply_section (idiom not recognised)', 'no order-disturbing consumer; slot values come from %s' % sorted(srcs))
            rep.note('R4.8: apply_section fills slots through %s, not one of the recognised front consumers: order not decided' % sorted(srcs))
    # ---------------- R4.9
    rep.rule('R4.9', 'every operator can be op-assigned: when a run of operator characters ends in `=`, the lexer treats it as a comparison token '
             'only if the WHOLE run before the `=` is one of ! < > = (giving != <= >= ==); any other run is the operator followed by the assignment '
             'token, so `x <<= 3`, `xs !!= 1`, `f >>>= g` are op-assignments like `x += 1` (table read off the HIR patterns of the lexer)')
    found9 = None
    for fn9, ms9 in F.matches.items():
        if not fn9.startswith('lex::'):
            continue
        for m9 in ms9:
            if m9['kind'] != 'Normal':
                continue
            pats9 = [pat_str(a['pat']) for a in m9['arms']]
            if any(re.search(r'char:=\)?$', p_) or ', char:=' in p_ for p_ in pats9) and ('str' in m9['scrut_ty'] or 'char' in m9['scrut_ty']) and any('char:=' in p_ for p_ in pats9) and len(pats9) >= 3 and 'Option<&char>' not in m9['scrut_ty']:
                found9 = (fn9, m9, pats9)
    if not found9:
        rep.note('R4.9: the lexer decides comparison-vs-op-assign without a match on (operator run, last char) (idiom not recognised): not decided')
        rep.ok('R4.9', 'lexer op-assign split (idiom not recognised)', 'not decided')
    else:
        fn9, m9, pats9 = found9
        whole = set()
        for p_ in pats9:
            if 'char:=' in p_:
                whole |= set(re.findall(r'str:([^ |,)]*)', p_))
        if '&str' in m9['scrut_ty'] and whole >= {'!', '<', '>', '='} and whole <= {'!', '<', '>', '=', ''}:
            rep.ok('R4.9', 'lexer op-assign split', 'comparison only for the whole runs %s; empty run = plain assignment; everything else splits off `=`' % sorted(whole - {''}))
        else:
            rep.viol('R4.9', 'lex|opassign-split', 'the lexer no longer decides "comparison or operator followed by =" on the whole operator run (scrutinee %s, whole-run literals %s): multi-character operators starting with ! < > = lose their op-assign form (`x <<= 3` becomes a lookup of `<<=`)' % (m9['scrut_ty'], sorted(whole)), F.loc(m9['sp']))
    rep.undecided += ['extensional equality of each builtin across forms when its body is wrong', 'user-defined closures (one path: Closure::run)']
    return META


def _matches(pat, inp):
    """first-match semantics on an abstract input built from literals / constructors / wildcards: does `pat` match every
    value described by `inp`? (inp contains no or-patterns; wildcards in inp stand for an arbitrary value)"""
    pat = strip_ref(pat)
    k = pat.get('k')
    if k in ('wild', 'bind') and 's' not in pat:
        return True
    if k == 'bind':
        return _matches(pat['s'], inp)
    if k == 'or':
        return any(_matches(x, inp) for x in pat['s'])
    ik = inp.get('k')
    if ik == 'wild':
        return False
    if k == 'lit':
        return ik == 'lit' and inp['v'] == pat['v']
    if k == 'path':
        return ik == 'path' and inp['p'].rsplit('::', 1)[-1] == pat['p'].rsplit('::', 1)[-1]
    if k == 'tuple':
        return ik == 'tuple' and len(pat['s']) == len(inp['s']) and all(_matches(a, b) for a, b in zip(pat['s'], inp['s']))
    if k == 'ts':
        if ik != 'ts' or inp['p'].rsplit('::', 1)[-1] != pat['p'].rsplit('::', 1)[-1]:
            return False
        subs = pat['s']
        if pat.get('dd', -1) >= 0:
            return True
        return len(subs) == len(inp['s']) and all(_matches(a, b) for a, b in zip(subs, inp['s']))
    return False
