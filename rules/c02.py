"""C02 - unshared mutation is in place: structural necessary conditions (static clauses)."""
import re
from .core import (family_calls, family_bodies, CheckError, find_match, arm_region, pat_str, strip_ref, origins, only_when, pat_paths,
                   Registry, op_local)
from .opassign import order_rule

META = {
    'level': 'other',
    'explanation': (
        'Decides the structural necessary conditions for in-place mutation, not the O(n+k) allocation bound itself: (R2.1) every '
        'op-assign path nulls the target slot (drop_lhs) before it calls the operator with the value it read, so the operator owns the only '
        'reference; the drop really releases: in set_index a missing value (None) is a no-op only for homogeneous payloads, never for list '
        'elements, dict values or struct fields; (R2.2) the every-path takes each element out of its slot before calling the function; '
        '(R2.3) every function on the in-place path mutates through Rc::make_mut and contains no whole-payload copy or reallocation '
        '(clone / to_vec / to_owned / into_owned / shrink_to_fit of a Vec, String or HashMap payload); (R2.4) consuming iterators drain '
        'when the handle is unique and unwrap_or_clone tries try_unwrap first; (R2.5) builtins and Func::run* take arguments by value and '
        'forward them without cloning.'),
    'trusted_base': ['rustc nightly HIR/MIR', 'Rc::make_mut does not copy at strong count 1'],
    'assumptions': ['the amount allocated and "copies at most once per additional holder" are runtime quantities, not decided'],
}

PAY = re.compile(r'^&?(mut )?(std::vec::Vec<|std::string::String|std::collections::HashMap<|\[core::Obj\]|\[u8\]|\[nnum::NNum\])')
COPY_METHODS = ('clone', 'to_vec', 'to_owned', 'shrink_to_fit', 'shrink_to', 'reserve_exact', 'into_owned', 'into_boxed_slice', 'concat', 'repeat')


def payload_copies(b):
    out = []
    for c in b.calls:
        last = c.target.rsplit('::', 1)[-1]
        g = (c.callee.get('g') or [''])[0]
        inherent = re.match(r'^(std::vec::Vec::<|std::string::String::|std::collections::HashMap::<|(alloc|core|std)::slice::<impl \[T\]>::|(alloc|core|std)::str::<impl str>::)', c.target)
        if last in COPY_METHODS and (PAY.search(g) or inherent):
            if last in ('to_owned', 'into_owned', 'repeat', 'concat') and re.search(r'impl str>', c.target) and not PAY.search(g):
                continue   # string literals in error messages
            out.append((c, last, g or c.target))
    return out


def run(F, rep, tier):
    reg = Registry(F)
    # ---------------- R2.1
    rep.rule('R2.1', 'op-assign: drop_lhs dominates every direct run2 whose first operand is the value read from the lvalue (ordering rule); '
             'drop_lhs -> set_index(.., None, ..) releases: a `None => no-op` arm on the value exists only inside homogeneous-payload arms '
             '(Vector, Bytes, String, function precedence)')
    try:
        order_rule(F, rep, 'R2.1')
    except CheckError as e:
        rep.error('R2.1', str(e))
    dl = F.body(F.anchor('eval::drop_lhs'))
    dcl = [cl for cl in F.closures_of('eval::drop_lhs') if any(c.target == 'eval::set_index' for c in F.body(cl).calls)]
    if dcl:
        cb = F.body(dcl[0])
        si = [c for c in cb.calls if c.target == 'eval::set_index'][0]
        vo = origins(cb, si.args[2])
        if vo and all(o[0] == 'agg' and o[1] == 'std::option::Option' and o[2] == 'None' for o in vo):
            rep.ok('R2.1', 'drop_lhs', 'set_index(ptr, ixs, None, every)')
        else:
            rep.viol('R2.1', 'eval::drop_lhs|value', 'drop_lhs does not pass None as the value', si.loc())
    else:
        rep.viol('R2.1', 'eval::drop_lhs|shape', 'drop_lhs no longer nulls through set_index', dl.loc(0))
    # every path through the drop closure really nulls the slot
    if dcl:
        cb = F.body(dcl[0])
        sis = {c.bb for c in cb.calls if c.target == 'eval::set_index'}
        rets = set(cb.return_blocks())
        if sis and cb.every_path_passes(0, rets, sis):
            rep.ok('R2.1', 'drop_lhs closure', 'every path nulls the slot (no conditional skip)')
        else:
            rep.viol('R2.1', 'eval::drop_lhs|conditional-drop', 'drop_lhs can leave the slot untouched on some path (e.g. depending on the declared type): the operator then receives a shared handle and copies the collection on every op-assign', cb.loc(0))
    si_fn = F.anchor('eval::set_index')
    sb = F.body(si_fn)
    # matches on the value Option<Obj> with a no-op None arm, classified by the enclosing (seq kind, index) arm
    outer = [m for m in F.matches.get(si_fn, []) if m['kind'] == 'Normal' and len(m['arms']) >= 6]
    nn = 0
    for m in F.matches.get(si_fn, []):
        if m['kind'] != 'Normal' or 'std::option::Option<core::Obj>' not in m['scrut_ty']:
            continue
        for i, a in enumerate(m['arms']):
            if not any(p.endswith('::None') for p in pat_paths(a['pat'])):
                continue
            regn = arm_region(F, sb, m, i)
            writes = [c for c in sb.calls_in(regn) if c.target.rsplit('::', 1)[-1] in ('insert', 'set_index', 'push', 'replace')]
            assigns = [1 for bb in regn for s in sb.stmts(bb) if s[0] == 'a' and s[2][0] == 'agg' and s[2][2] == 'core::Obj']
            if writes or assigns:
                continue
            encl = []
            for om in outer:
                for oa in om['arms']:
                    if F.span_in(m['sp'], oa['sp']):
                        encl += [p.rsplit('::', 1)[-1] for p in pat_paths(oa['pat'])]
            nn += 1
            homogeneous = {'Vector', 'Bytes', 'String'}
            if (set(encl) & homogeneous or ('Func' in encl and 'Seq' not in encl)) and not (set(encl) & {'List', 'Dict', 'Instance'}):
                rep.ok('R2.1', 'set_index: None no-op inside %s' % sorted(set(encl) & (homogeneous | {'Func'})), 'homogeneous payload: nothing to release')
            else:
                rep.viol('R2.1', si_fn + '|none-noop|%s' % ','.join(sorted(set(encl) & {'List', 'Dict', 'Instance'}) or ['?']),
                         'set_index ignores a dropped value (None) for a slot that holds an Obj (%s): drop_lhs no longer releases the slot\'s reference, every `d[k] f= v` then copies the collection' % sorted(set(encl)), sb.loc(min(regn)) if regn else None)
    rep.floor('R2.1', 'None no-op arms in set_index', nn, 3)
    # terminal writes use unwrap_or(Null)
    uo = [c for c in sb.calls if c.target.rsplit('::', 1)[-1] == 'unwrap_or' and 'core::Obj' in str(c.callee.get('g'))]
    if len(uo) >= 2:
        rep.ok('R2.1', 'set_index terminal writes', '%d sites store value.unwrap_or(Obj::Null)' % len(uo))
    else:
        rep.viol('R2.1', si_fn + '|terminal-write', 'fewer than two terminal writes store value.unwrap_or(Null) (whole slot, dict entry)', sb.loc(0))

    # ---------------- R2.2
    rep.rule('R2.2', 'modify_every: the element closure takes the element out of its slot (mem::take) before calling the function on it')
    me = 'eval::modify_every'
    okm = False
    for cl in F.closures_of(me):
        cb = F.body(cl)
        takes = [c for c in cb.calls if c.target.rsplit('::', 1)[-1] in ('take', 'replace')]
        ind = [c for c in cb.calls if c.is_indirect or c.callee.get('tr', '').startswith('std::ops::Fn')]
        if takes and ind and all(cb.dominates(takes[0].bb, c.bb) for c in ind):
            og = origins(cb, ind[0].args[-1], passthru=()) if ind[0].args else set()
            okm = True
    if okm:
        rep.ok('R2.2', me, 'mem::take(x) dominates rhs(..)')
    else:
        rep.viol('R2.2', me + '|take-before-call', 'the every-modification closure no longer takes the element out before calling the function (the function sees a shared element and copies it)', None)

    # ---------------- R2.3
    rep.rule('R2.3', 'in-place path: each listed function calls Rc::make_mut and contains no whole-payload copy/reallocation; reviewed '
             'exceptions are keyed by function and callee')
    table = ['eval::set_index', 'eval::modify_existing_index', 'eval::modify_every_existing_index', 'core::Obj::try_pop',
             'core::Obj::try_remove_index', 'core::Obj::try_remove_slice', '<Append as core::Builtin>::run2',
             '<Prepend as core::Builtin>::run2', 'plusplus_concatenate', 'uncons', 'unsnoc']
    named = ['||', '||+', '||-', '||++', '|.', 'discard', '-.', 'insert', '|..', '&&', '--', 'map_keys', 'map_values', 'shuffle']
    exceptions = {
        ('eval::set_index', 'into_owned'): 'String::from_utf8_lossy(..).into_owned() on the error path of a string index assignment that produced invalid UTF-8',
    }
    fns = [(f, f) for f in table]
    for nm in named:
        try:
            fns.append(('builtin ' + nm, reg.body_of(nm)))
        except CheckError as e:
            rep.error('R2.3', str(e))
    n3 = 0
    for label, fn in fns:
        if not F.has_fn(fn):
            rep.error('R2.3', 'in-place function %s missing' % fn)
            continue
        b = F.body(fn)
        mm = [c for c in b.calls if c.target.endswith('::make_mut') and 'Rc' in c.target or c.target.endswith('Arc::<T>::make_mut')]
        mm = [c for c in family_calls(F, fn) if c.target.rsplit('::', 1)[-1] == 'make_mut']
        n3 += 1
        if not mm:
            rep.viol('R2.3', '%s|no-make_mut' % label, '%s no longer mutates through Rc::make_mut' % label, b.loc(0))
        bodies = [b]
        seenh = {fn}
        sth = [c.target for c in b.calls if c.callee.get('rlocal') or c.callee.get('local')]
        while sth:
            h = sth.pop()
            if h in seenh or not F.has_fn(h) or re.search(r'(^eval::evaluate$|impl core::Func>::run|^core::to_key$|NErr|^eval::is_type$|Fmt|fmt)', h) or h in table:
                continue
            seenh.add(h)
            hb = F.body(h)
            # only helpers that work on a payload handle
            if any(re.search(r'(Rc<|Vec<|HashMap<|String)', t) for t in (F.fns.get(h, {}).get('inputs') or [])):
                bodies.append(hb)
                sth += [c.target for c in hb.calls if c.callee.get('rlocal') or c.callee.get('local')]
        bad = [(c, last, g) for bx in bodies for (c, last, g) in payload_copies(bx) if (fn, last) not in exceptions and (bx.path, last) not in exceptions]
        # a second handle to the payload (Rc::clone) inside an in-place function defeats make_mut just as well
        for bx in bodies:
            for c in bx.calls:
                if c.target.endswith('Clone>::clone') and re.search(r'std::rc::Rc<(std::vec::Vec|std::string::String|std::collections::HashMap)', c.target + str(c.callee.get('g'))):
                    bad.append((c, 'Rc::clone', str(c.callee.get('g'))))
        for (c, last, g) in bad:
            rep.viol('R2.3', '%s|payload-copy|%s' % (label, last), '%s copies or reallocates a whole payload (%s on %s): k mutations of an unshared collection of n elements cost O(n*k)' % (label, last, g[:60]), c.loc())
        if mm and not bad:
            rep.ok('R2.3', label, '%d make_mut site(s), no payload copy' % len(mm))
    rep.floor('R2.3', 'in-place functions', n3, 24)
    total_mm = sum(1 for b in F.all_bodies() for c in b.calls if c.target.rsplit('::', 1)[-1] == 'make_mut')
    rep.extra['make_mut_call_sites_in_crate'] = total_mm
    rep.floor('R2.3', 'Rc::make_mut call sites in the crate', total_mm, 50)

    # ---------------- R2.4
    rep.rule('R2.4', 'RcVecIter::of / RcHashMapIter::of / RcStringIter::of build the Draining variant only under a uniqueness test '
             '(strong_count == 1 or get_mut is Some) and call drain; unwrap_or_clone calls Rc::try_unwrap before clone')
    for fn in F.fns_matching(r'^iter::Rc(Vec|HashMap|String)Iter::<.*>::of$'):
        b = F.body(fn)
        tests = [c for c in b.calls if c.target.rsplit('::', 1)[-1] in ('strong_count', 'get_mut', 'is_some', 'is_unique')]
        drains = [c for c in b.calls if c.target.rsplit('::', 1)[-1] == 'drain']
        aggs = {s[2][4] for _bb, s in b.aggregates() if 'Iter' in s[2][2]}
        if tests and drains and {'Draining', 'Cloning'} <= aggs and all(any(b.dominates(t.bb, d.bb) for t in tests) for d in drains):
            rep.ok('R2.4', fn, 'drain under a uniqueness test; clone otherwise')
        else:
            rep.viol('R2.4', fn + '|drain', '%s does not drain a uniquely owned payload (tests %d, drains %d, variants %s)' % (fn, len(tests), len(drains), sorted(aggs)), b.loc(0))
    rep.floor('R2.4', 'draining iterator constructors', len(F.fns_matching(r'^iter::Rc(Vec|HashMap|String)Iter::<.*>::of$')), 3)
    uc = 'iter::unwrap_or_clone'
    if F.has_fn(uc):
        b = F.body(uc)
        tu = [c for c in b.calls if c.target.rsplit('::', 1)[-1] == 'try_unwrap']
        cl = [c for c in b.calls if c.target.rsplit('::', 1)[-1] == 'clone']
        if tu and all(b.dominates(tu[0].bb, c.bb) for c in cl):
            rep.ok('R2.4', uc, 'try_unwrap first, clone only on Err')
        else:
            rep.viol('R2.4', uc + '|try_unwrap', 'unwrap_or_clone clones without trying to take the unique payload', b.loc(0))
    else:
        rep.error('R2.4', 'missing ' + uc)

    # ---------------- R2.5
    rep.rule('R2.5', 'Builtin::run1/run2 and Func::run1/run2 take Obj by value; the Builtin arm of Func::run1/run2 forwards its parameters '
             'without cloning')
    for fn in F.fns_matching(r'impl core::Func>::run[12]$'):
        b = F.body(fn)
        ins = F.fns[fn]['inputs']
        byval = all(t == 'core::Obj' for t in ins[2:])
        fw = [c for c in b.calls if c.callee.get('tr') == 'core::Builtin' and c.target.rsplit('::', 1)[-1] in ('run1', 'run2')]
        clones = [c for c in b.calls if c.target == '<core::Obj as std::clone::Clone>::clone' and any(
            o[0] == 'param' and o[1] in ('arg', 'arg1', 'arg2') for o in origins(b, c.args[0]))]
        okf = byval and fw and not clones and all(all(all(o[0] == 'param' for o in origins(b, a)) for a in c.args[2:]) for c in fw)
        if okf:
            rep.ok('R2.5', fn, 'arguments by value, forwarded to the builtin as is')
        else:
            rep.viol('R2.5', fn + '|by-value', '%s clones or borrows its arguments on the builtin fast path (by value %s, clones %d)' % (fn, byval, len(clones)), b.loc(0))
    # ---------------- R2.8
    rep.rule('R2.8', 'the element a for loop hands to its body is owned by the loop: evaluate_for iterates with the draining iterators '
             '(mut_obj_into_iter / mut_obj_into_iter_pairs), never with a cloning iterator that leaves the source as a co-owner of every row; '
             'and every sequence arm of Append::run2 / Prepend::run2 mutates its own payload through Rc::make_mut (no detour through `++`, '
             'which only extends its left operand in place)')
    efb8 = F.body('eval::evaluate_for') if F.has_fn('eval::evaluate_for') else None
    if efb8 is None:
        rep.error('R2.8', 'evaluate_for missing')
    else:
        srcs = [c for c in family_calls(F, 'eval::evaluate_for', depth=1) if re.search(r'(mut_obj_into_iter(_pairs)?|obj_to_cloning_iter|cloning_iter|obj_clone_iter)$', c.target)]
        bad8 = [c for c in srcs if 'clon' in c.target.rsplit('::', 1)[-1]]
        if bad8:
            rep.viol('R2.8', 'eval::evaluate_for|cloning-iterator', 'a for loop iterates over a copy-sharing iterator (%s): every row stays co-owned by the iterated collection, so the first mutation of the loop variable copies the row' % bad8[0].target.rsplit('::', 1)[-1], bad8[0].loc())
        elif len(srcs) >= 2:
            rep.ok('R2.8', 'evaluate_for', 'draining iterators (%d site(s))' % len(srcs))
        else:
            rep.note('R2.8: evaluate_for obtains its elements in an unrecognised way: not decided')
    for ty8 in ('Append', 'Prepend'):
        fn8 = '<%s as core::Builtin>::run2' % ty8
        if not F.has_fn(fn8):
            continue
        b8 = F.body(fn8)
        for m8 in F.matches.get(fn8, []):
            if m8['kind'] != 'Normal':
                continue
            for i8, a8 in enumerate(m8['arms']):
                kinds = [p_.rsplit('::', 1)[-1] for p_ in pat_paths(a8['pat']) if p_.startswith('core::Seq::')]
                if not kinds or kinds[0] not in ('List', 'Vector', 'Bytes'):
                    continue
                regn = arm_region(F, b8, m8, i8)
                if any(c.target.rsplit('::', 1)[-1] == 'make_mut' for c in b8.calls_in(regn)):
                    rep.ok('R2.8', '%s Seq::%s' % (fn8, kinds[0]), 'make_mut in the arm')
                else:
                    rep.viol('R2.8', '%s|%s|no-make_mut' % (fn8, kinds[0]), 'the %s arm of %s no longer mutates its payload through Rc::make_mut: the uniquely owned collection is rebuilt on every call (O(n) per element)' % (kinds[0], fn8), b8.loc(min(regn)) if regn else None)
    # ---------------- R2.7
    rep.rule('R2.7', 'the walkers descend into the stored element, not into a copy of it: set_index / modify_existing_index / '
             'modify_every_existing_index never clone an Obj fetched from the container they are modifying (HashMap get / get_mut, indexing, '
             'iteration) - the copy is a second holder, so the nested make_mut duplicates the whole row on every pop / remove / update; cloning '
             'the index key, the new value or the dict default (to store it under a fresh key) is fine')
    n27 = 0
    for w in ('eval::set_index', 'eval::modify_existing_index', 'eval::modify_every_existing_index'):
        if not F.has_fn(w):
            continue
        for c in [c_ for wb_ in family_bodies(F, w) if wb_.path == w or wb_.path not in ('eval::set_index', 'eval::modify_existing_index', 'eval::modify_every_existing_index') for c_ in wb_.calls]:
            wb = c.body
            if not re.search(r'<core::(Obj|Seq) as std::clone::Clone>::clone$', c.target):
                continue
            n27 += 1
            og = origins(wb, c.args[0], passthru=('deref', 'as_ref', 'borrow', 'unwrap', 'branch'))
            fetched = [o for o in og if o[0] == 'call' and o[1].rsplit('::', 1)[-1] in ('get', 'get_mut', 'index', 'index_mut', 'next', 'last', 'first', 'pythonic_mut', 'last_mut', 'first_mut', 'remove', 'entry')]
            if fetched:
                rep.viol('R2.7', '%s|clone-of-element' % w, '%s clones an element it fetched from the container (%s) and works on the copy: the element then has two holders and every nested update copies it in full' % (w, fetched[0][1].rsplit('::', 2)[-2] + '::' + fetched[0][1].rsplit('::', 1)[-1]), c.loc())
            else:
                rep.ok('R2.7', '%s clone of %s' % (w.rsplit('::', 1)[-1], sorted({str(o[1]) for o in og})), 'not an element of the container being modified')
    rep.floor('R2.7', 'Obj clones in the walkers', n27, 1)
    # ---------------- R2.6
    rep.rule('R2.6', 'no second handle while writing in place: the closures that write a variable through set_index (in assign, assign_every, '
             'assign_respecting_type, drop_lhs) never clone an Obj / Seq read from the cell they are about to write - a snapshot that is '
             'alive across set_index makes Rc::make_mut copy the whole collection on every indexed assignment')
    n26 = 0
    for p_ in sorted(F.bodies_raw):
        if '::promoted' in p_ or '{closure' not in p_:
            continue
        b_ = F.body(p_)
        si = [c for c in b_.calls if c.target == 'eval::set_index']
        if not si:
            continue
        n26 += 1
        bad = []
        for c in b_.calls:
            if not re.search(r'<core::(Obj|Seq) as std::clone::Clone>::clone$', c.target):
                continue
            if not any(s_.bb in b_.reachable_from(c.bb) for s_ in si):
                continue
            rn = b_.root_names(c.args[0], through_calls=('try_borrow_nres', 'try_borrow_mut_nres', 'deref', 'branch', 'borrow', 'as_ref'))
            cellish = [r for r in rn if r.startswith('call:core::try_borrow') or r.startswith('call:std::cell::RefCell') or (r.startswith('param:') and r not in ('param:', 'param:_1'))]
            if cellish:
                bad.append((c, cellish))
        if bad:
            rep.viol('R2.6', '%s|snapshot-before-write' % p_, '%s clones the current value of the variable (%s) and keeps the copy alive across set_index: the collection then has two owners and every `x[i] = v` on it copies all of it' % (p_, bad[0][1][0]), bad[0][0].loc())
        else:
            rep.ok('R2.6', p_, 'no clone of the cell content before set_index')
    rep.floor('R2.6', 'write closures calling set_index', n26, 4)
    # ---------------- R2.9
    rep.rule('R2.9', 'Env::modify_ident hands its callback a reference into the variable\'s own cell: nothing in it (or its closures) clones '
             'an Obj - a copy taken out for the duration of the callback is a second holder of the payload, so the first make_mut inside '
             'pop / remove / indexed op-assign copies the whole collection on every statement')
    mi = 'core::Env::modify_ident'
    if not F.has_fn(mi):
        rep.error('R2.9', mi + ' missing')
    else:
        from .core import family_bodies as _fb
        cl9 = [c for b9 in _fb(F, mi) for c in b9.calls
               if c.target.endswith('::clone') and any(str(g) in ('core::Obj', '&core::Obj', 'std::cell::Ref<\'_, core::Obj>', 'std::cell::RefMut<\'_, core::Obj>') or str(g).endswith('core::Obj>') for g in (c.callee.get('g') or []))]
        if cl9:
            rep.viol('R2.9', mi + '|clones-value', 'modify_ident clones the variable\'s value (%s): mutation through it is no longer in place' % cl9[0].target, cl9[0].loc())
        else:
            rep.ok('R2.9', mi, 'no Obj clone on the mutation path')

    rep.undecided += ['bytes allocated as a function of n and k', 'copy-at-most-once-per-holder']
    return META
