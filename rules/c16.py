"""C16 - codecs and conversions: encoder/decoder table agreement, representation-independent rendering (static clauses)."""
import re
from .core import (family_bodies, builds_error, CheckError, find_match, arm_region, pat_str, strip_ref, origins, only_when, pat_paths,
                   Registry, op_local, bool_switches, fmt_templates)
from .census import Census
from . import c14_tables as T
from .c14 import match_table

META = {
    'level': 'other',
    'explanation': (
        'Decides table agreement between paired encoders/decoders and the wiring of exact conversions, not the round-trip equalities '
        '(those live in base64, flate2, serde_json, num and std): (R16.1) hex: the decoder\'s digit classes cover the encoder\'s alphabet '
        'with the right values and require even length; radix: str_radix and int_radix guard the same base range 2..=36, str_radix pushes '
        'the sign before reversing and takes digits by char::from_digit(_, base), int_radix folds base * x + to_digit(base); (R16.2) integer '
        'rendering ignores representation: the FmtBase -> formatting-trait table of NNum\'s MyDisplay, the flag table of parse_format_string, '
        'and NInt forwarding the same trait in both representation arms; (R16.3) json_encode / json_decode cover each other\'s kinds; '
        '(R16.4) decoders (decompress, base64_decode, hex_decode, utf8_decode, json_decode, int/rational/float/number conversions) contain no '
        'untriaged panic site; (R16.5) the exact decimal parser strips the sign before combining integer and fractional digits, negates the '
        'combined magnitude, uses checked exponent arithmetic and never drops leading digits of a positional field.'),
    'trusted_base': ['rustc nightly HIR/MIR', 'base64, flate2, serde_json, num-bigint/num-rational, std float/int parsing and formatting'],
    'assumptions': ['round-trip equalities as equations over all inputs are not decided'],
}


def run(F, rep, tier):
    reg = Registry(F)
    C = Census(F)

    def body(nm):
        return F.body(reg.body_of(nm))

    # ---------------- R16.1
    rep.rule('R16.1', 'hex_decode digit classes: 0-9 -> c - 48, a-f -> c - 97 + 10, A-F -> c - 65 + 10, anything else an error, odd length an error; '
             'hex_encode formats each byte with LowerHex; str_radix / int_radix accept exactly bases 2..=36 and use from_digit / to_digit with '
             'that base; str_radix pushes \'-\' before the final reverse', exhaustive=True)
    try:
        hb = body('hex_decode')
        vals = [p for p in F.fns if p.startswith(hb.path.rsplit('::{closure', 1)[0]) and p.endswith('::val')] or [p for p in F.fns if p.endswith('::val') and 'initialize' in p]
        if not vals:
            rep.error('R16.1', 'hex_decode: nested fn val not found')
        else:
            vb = F.body(vals[0])
            tab = {}
            for m in F.matches.get(vals[0], []):
                for i, a in enumerate(m['arms']):
                    if a['pat'].get('k') == 'range':
                        regn = arm_region(F, vb, m, i)
                        subs = [s[2][3][2] for bb in regn for s in vb.stmts(bb) if s[0] == 'a' and s[2][0] == 'bin' and s[2][1].startswith('Sub') and s[2][3][0] == 'k']
                        adds = [s[2][3][2] for bb in regn for s in vb.stmts(bb) if s[0] == 'a' and s[2][0] == 'bin' and s[2][1].startswith('Add') and s[2][3][0] == 'k']
                        tab['%s..%s' % (a['pat']['lo']['v'], a['pat']['hi']['v'])] = (subs, adds)
            want = {'byte:65..byte:70': (['65_u8'], ['10_u8']), 'byte:97..byte:102': (['97_u8'], ['10_u8']), 'byte:48..byte:57': (['48_u8'], [])}
            for k, w in want.items():
                if tab.get(k) == w:
                    rep.ok('R16.1', 'hex digit class %s' % k, 'c - %s %s' % (w[0][0], ('+ ' + w[1][0]) if w[1] else ''))
                else:
                    rep.viol('R16.1', 'hex_decode|class|%s' % k, 'hex digit class %s decodes as %s, expected %s' % (k, tab.get(k), w), vb.loc(0))
            if any(builds_error(F, c) for c in vb.calls):
                rep.ok('R16.1', 'hex digit default', 'error')
            else:
                rep.viol('R16.1', 'hex_decode|default', 'a non-hex character is not rejected', vb.loc(0))
        # the body of the builtin together with the closures and nested helper functions defined under it
        fam = [F.body(p_) for p_ in sorted(F.bodies_raw) if '::promoted' not in p_ and C.fn_key(p_).startswith('builtin(hex_decode)')]
        chunk_fns = [b_ for b_ in fam if any(c.target.endswith('::chunks') or c.target.endswith('::chunks_exact') for c in b_.calls)]
        bad_len = []
        for b_ in chunk_fns:
            rems = [(i, s_) for i in b_.reach for s_ in b_.stmts(i) if s_[0] == 'a' and s_[2][0] == 'bin' and s_[2][1] == 'Rem' and s_[2][3][0] == 'k' and s_[2][3][2].startswith('2_')]
            chs = [c for c in b_.calls if c.target.endswith('::chunks') or c.target.endswith('::chunks_exact')]
            errs = [c for c in b_.calls if builds_error(F, c)]
            if not (rems and errs and all(any(b_.dominates(i, c.bb) for i, _s in rems) for c in chs)):
                bad_len.append(b_)
        if chunk_fns and not bad_len:
            rep.ok('R16.1', 'hex_decode length', 'every chunks(2) is dominated by a len %% 2 test (%d site(s)); odd length raises' % sum(1 for b_ in chunk_fns for c in b_.calls if c.target.endswith('::chunks')))
        else:
            rep.viol('R16.1', 'hex_decode|even-length', 'odd-length input is not rejected before the digits are paired (in %s)' % ([b_.path for b_ in bad_len] or 'no chunks() found'), (bad_len[0] if bad_len else hb).loc(0))
        he = body('hex_encode')
        cls = [F.body(c) for c in F.closures_of(he.path)]
        if any('new_lower_hex' in c.target for b_ in cls + [he] for c in b_.calls):
            rep.ok('R16.1', 'hex_encode', 'LowerHex per byte')
            # the decoder reads exactly two digits per byte (chunks(2)): the encoder's placeholder must be two wide, zero filled
            for b_ in cls + [he]:
                if not any('new_lower_hex' in c.target for c in b_.calls):
                    continue
                for c, tpl in fmt_templates(b_):
                    if tpl is None:
                        rep.error('R16.1', 'hex_encode: format template of %s not decodable' % b_.path)
                        continue
                    phs = [d for k, d in tpl if k == 'arg']
                    lits = [d for k, d in tpl if k == 'lit']
                    if len(phs) == 1 and not lits and phs[0]['width'] == 2 and phs[0]['zero_pad'] and not phs[0]['width_indirect'] and not phs[0]['alternate']:
                        rep.ok('R16.1', 'hex_encode width', '{:02x}: two digits per byte, matching hex_decode\'s chunks(2)')
                    else:
                        rep.viol('R16.1', 'hex_encode|width', 'hex_encode formats a byte with template %s: not exactly two zero-filled hex digits, so bytes below 0x10 shift every later digit and hex_decode(hex_encode(b)) != b' % (tpl,), c.loc())
        else:
            rep.viol('R16.1', 'hex_encode|format', 'hex_encode does not format bytes with LowerHex', he.loc(0))
    except CheckError as e:
        rep.error('R16.1', str(e))
    for nm in ('str_radix', 'int_radix'):
        try:
            b = body(nm)
        except CheckError as e:
            rep.error('R16.1', str(e))
            continue
        consts = set()
        for i in b.reach:
            for s in b.stmts(i):
                if s[0] == 'a' and s[2][0] == 'bin' and s[2][1] in ('Le', 'Lt', 'Ge', 'Gt'):
                    for o in s[2][2:4]:
                        if o[0] == 'k':
                            consts.add(o[2])
        if {'2_u32', '36_u32'} <= consts:
            rep.ok('R16.1', '%s base range' % nm, '2..=36')
        else:
            rep.viol('R16.1', '%s|base-range' % nm, '%s guards its base with %s, expected 2 and 36' % (nm, sorted(consts)), b.loc(0))
    try:
        sb = body('str_radix')
        fd = [c for c in sb.calls if c.target.endswith('::from_digit')]
        rv = [c for c in sb.calls if c.target.endswith('::reverse')]
        push_minus = [c for c in sb.calls if c.target.endswith('::push') and any(a[0] == 'k' and a[2] == "'-'" for a in c.args)]
        if fd and rv and push_minus and all(sb.dominates(p.bb, rv[0].bb) or not sb.dominates(rv[0].bb, p.bb) for p in push_minus) and not any(sb.dominates(rv[0].bb, p.bb) for p in push_minus):
            rep.ok('R16.1', 'str_radix', 'digits by from_digit, sign pushed before reverse')
        else:
            rep.viol('R16.1', 'str_radix|sign-order', 'str_radix does not emit the sign in front of the digits (from_digit %d, reverse %d, push(-) %d)' % (len(fd), len(rv), len(push_minus)), sb.loc(0))
        ib = body('int_radix')
        td = [c for c in ib.calls if c.target.endswith('::to_digit')]
        mul = [c for c in ib.calls if c.callee.get('tr') == 'std::ops::Mul' and 'BigInt' in str(c.callee.get('g'))]
        if len(td) >= 2 and len(mul) >= 2:
            rep.ok('R16.1', 'int_radix', 'x = base * x + to_digit(base) for strings and bytes')
        else:
            rep.viol('R16.1', 'int_radix|fold', 'int_radix lost its positional fold', ib.loc(0))
    except CheckError as e:
        rep.error('R16.1', str(e))

    # ---------------- R16.2
    rep.rule('R16.2', 'MyDisplay for NNum: FmtBase::Decimal/Binary/Octal/LowerHex/UpperHex select Display/Binary/Octal/LowerHex/UpperHex; '
             'parse_format_string maps x X b|B o|O d|D to LowerHex UpperHex Binary Octal Decimal; NInt forwards the same trait in both '
             'representation arms', exhaustive=True)
    fw = '<nnum::NNum as core::MyDisplay>::fmt_with_mut'
    if F.has_fn(fw):
        b = F.body(fw)
        m = find_match(F, fw, r'core::FmtBase', min_arms=5)
        want = {'Decimal': 'new_display', 'Binary': 'new_binary', 'Octal': 'new_octal', 'LowerHex': 'new_lower_hex', 'UpperHex': 'new_upper_hex'}
        for i, a in enumerate(m['arms']):
            vps = [p_ for p_ in pat_paths(a['pat']) if 'FmtBase' in p_]
            if not vps:
                continue            # an arm that does not select a base (e.g. the repr flag of a tuple match)
            v = vps[0].rsplit('::', 1)[-1]
            regn = arm_region(F, b, m, i)
            ctor = sorted({c.target.rsplit('::', 1)[-1] for c in b.calls_in(regn) if 'Argument' in c.target and c.target.rsplit('::', 1)[-1].startswith('new_')})
            if ctor == [want.get(v)]:
                rep.ok('R16.2', 'FmtBase::%s' % v, ctor[0])
            else:
                rep.viol('R16.2', 'fmtbase|%s' % v, 'FmtBase::%s renders with %s, expected %s' % (v, ctor, want.get(v)), b.loc(0))
    else:
        rep.error('R16.2', 'missing ' + fw)
    pf = 'core::parse_format_string'
    if F.has_fn(pf):
        b = F.body(pf)
        flags = {}
        for m in F.matches.get(pf, []):
            if m['kind'] != 'Normal':
                continue
            for i, a in enumerate(m['arms']):
                chars = re.findall(r'char:(.)', pat_str(a['pat']))
                if not chars:
                    continue
                regn = arm_region(F, b, m, i)
                vs = sorted({s[2][4] for _bb, s in b.aggregates(regn) if s[2][2] == 'core::FmtBase'})
                if vs:
                    for ch in chars:
                        flags[ch] = vs
        want = {'x': ['LowerHex'], 'X': ['UpperHex'], 'b': ['Binary'], 'B': ['Binary'], 'o': ['Octal'], 'O': ['Octal'], 'd': ['Decimal'], 'D': ['Decimal']}
        for ch, w in want.items():
            if flags.get(ch) == w:
                rep.ok('R16.2', 'format flag %s' % ch, w[0])
            else:
                rep.viol('R16.2', 'format-flag|%s' % ch, 'format flag %s selects %s, expected %s' % (ch, flags.get(ch), w), b.loc(0))
    else:
        rep.error('R16.2', 'missing ' + pf)
    for tr in ('Display', 'LowerHex', 'UpperHex', 'Binary', 'Octal'):
        fn = '<nint::NInt as std::fmt::%s>::fmt' % tr
        if not F.has_fn(fn):
            rep.error('R16.2', 'missing ' + fn)
            continue
        b = F.body(fn)
        fcalls = [c for c in b.calls if c.target.rsplit('::', 1)[-1] == 'fmt']
        trs = sorted({c.callee.get('tr') for c in fcalls})
        selfs = sorted({(c.callee.get('g') or [''])[0] for c in fcalls})
        if trs == ['std::fmt::' + tr] and any('i64' in x for x in selfs) and any('BigInt' in x for x in selfs):
            rep.ok('R16.2', fn, 'every arm forwards std::fmt::' + tr)
        else:
            rep.viol('R16.2', fn + '|forward', 'NInt %s forwards %s on %s' % (tr, trs, selfs), b.loc(0))
        if tr != 'Display':
            # a negative i64 formats as two's complement in hex/binary/octal, a BigInt as sign and magnitude:
            # the machine-word formatter may only see non-negative values
            for c in fcalls:
                if 'i64' not in (c.callee.get('g') or [''])[0]:
                    continue
                guarded = False
                for i in b.dominators()[c.bb]:
                    for s_ in b.stmts(i):
                        if s_[0] == 'a' and s_[2][0] == 'bin' and s_[2][1] in ('Lt', 'Ge') and s_[2][3][0] == 'k' and s_[2][3][2].startswith('0_'):
                            for (sw, tt, ff) in bool_switches(b, s_[1][0]):
                                nonneg = ff if s_[2][1] == 'Lt' else tt
                                neg = tt if s_[2][1] == 'Lt' else ff
                                if c.bb in b.reachable_from(nonneg, avoid={sw}) and c.bb not in b.reachable_from(neg, avoid={sw}):
                                    guarded = True
                if guarded:
                    rep.ok('R16.2', fn + ' sign', 'i64 formatter reached only for non-negative values')
                else:
                    rep.viol('R16.2', fn + '|negative-word', 'a negative machine-word integer is formatted by <i64 as %s> (two\'s complement) while the same value in big representation prints sign and magnitude: the rendering depends on the representation' % tr, c.loc())

    # ---------------- R16.3
    rep.rule('R16.3', 'json_encode handles Null, Int (i64 else f64), other numbers (f64), String, Dict (object) and other sequences (array); '
             'json_decode handles Null, Bool, Number (i64 else f64), String, Array, Object: every decoder output kind is an encoder input kind')
    for fn, pats in (('json_encode', ['Null', 'Num', 'Seq']), ('json_decode', ['Null', 'Bool', 'Number', 'String', 'Array', 'Object'])):
        if not F.has_fn(fn):
            rep.error('R16.3', 'missing ' + fn)
            continue
        seen = set()
        for m in F.matches.get(fn, []):
            for a in m['arms']:
                for p in pat_paths(a['pat']):
                    seen.add(p.rsplit('::', 1)[-1])
        if set(pats) <= seen:
            rep.ok('R16.3', fn, 'arms for %s' % pats)
        else:
            rep.viol('R16.3', fn + '|kinds', '%s lost an arm for %s' % (fn, sorted(set(pats) - seen)), F.body(fn).loc(0))
    jd = F.body('json_decode') if F.has_fn('json_decode') else None
    if jd is not None:
        built = {(s[2][2].rsplit('::', 1)[-1], s[2][4]) for _bb, s in jd.aggregates() if s[2][2] in ('core::Obj', 'core::Seq')}
        calls = {c.target for c in jd.calls}
        if ('Obj', 'Null') in built and any('Obj::list' in c for c in calls) and ('Seq', 'Dict') in built:
            rep.ok('R16.3', 'json_decode outputs', 'Null, numbers, strings, lists, dicts (all accepted by json_encode)')
        else:
            rep.viol('R16.3', 'json_decode|outputs', 'json_decode builds %s' % sorted(built), jd.loc(0))

    # ---------------- R16.4
    rep.rule('R16.4', 'decoders raise instead of panicking: the bodies of decompress, base64_decode, hex_decode, utf8_decode, json_decode and the '
             'exact decimal parser contain no panic site outside the reviewed table')
    targets = set()
    for nm in ('decompress', 'base64_decode', 'hex_decode', 'utf8_decode', 'json_decode', 'int_radix', 'str_radix', 'compress', 'base64_encode', 'json_encode'):
        try:
            bp = reg.body_of(nm)
            targets.add(bp)
            targets |= set(F.closures_of(bp))
        except CheckError as e:
            rep.error('R16.4', str(e))
    targets |= {p for p in F.fns if p.startswith('decimal::') and '::tests::' not in p} | {p for p in ('json_decode', 'json_encode') if F.has_fn(p)}
    ns = 0
    for key, fn, c, kind, msg in C.panic_sites(targets):
        ns += 1
        verdict, reason = match_table(T.PANIC_TABLE, key)
        if verdict:
            rep.ok('R16.4', key, '%s: %s' % (verdict, reason))
        else:
            rep.viol('R16.4', key, 'a codec/conversion body panics on bad input instead of raising (%s in %s)' % (kind, C.fn_key(fn)), c.loc())
    rep.ok('R16.4', 'codec bodies scanned', '%d functions, %d triaged panic site(s)' % (len(targets), ns))
    rep.floor('R16.4', 'codec functions scanned', len(targets), 12)

    # ---------------- R16.5
    rep.rule('R16.5', 'exact decimal parsing: the sign is stripped (strip_prefix with \'-\') before the mantissa is split at the point, the '
             'combined magnitude is negated under that flag, the exponent is adjusted with checked_sub / unsigned_abs, and no function of '
             'decimal.rs drops characters from the front or from both ends of a digit field (trim_matches / trim_start_matches / trim_start)')
    dec = [p for p in F.fns if p.startswith('decimal::') and '::tests' not in p and '{closure' not in p]
    comb = [p for p in dec if any(c.callee.get('tr') == 'std::ops::Mul' and 'BigInt' in str(c.callee.get('g')) for c in F.body(p).calls)
            and any(c.target.endswith('::find') for c in F.body(p).calls)]
    if not comb:
        rep.error('R16.5', 'mantissa-combining function not found in decimal.rs')
    for p in comb:
        b = F.body(p)
        strips = [c for c in b.calls if c.target.rsplit('::', 1)[-1] in ('strip_prefix', 'starts_with') and any(a[0] == 'k' and a[2] == "'-'" for a in c.args)]
        if strips:
            negs = [c for c in b.calls if c.callee.get('tr') == 'std::ops::Neg']
            if negs:
                rep.ok('R16.5', p, 'strips the sign itself and negates the magnitude')
            else:
                rep.viol('R16.5', p + '|sign', 'the sign is stripped but the magnitude is never negated', b.loc(0))
            continue
        callers = [q for q in dec if any(c.target == p for c in F.body(q).calls)]
        okc = False
        for q in callers:
            qb = F.body(q)
            st = [c for c in qb.calls if c.target.rsplit('::', 1)[-1] == 'strip_prefix' and any(a[0] == 'k' and a[2] == "'-'" for a in c.args)]
            ng = [c for c in qb.calls if c.callee.get('tr') == 'std::ops::Neg']
            call = [c for c in qb.calls if c.target == p]
            fed = any(any(o[0] in ('payload',) or (o[0] == 'call' and 'strip_prefix' in o[1]) or (o[0] == 'call' and 'unwrap_or' in o[1]) for o in origins(qb, c.args[0])) for c in call)
            if st and ng and fed:
                okc = True
        only_signed_callers = all(any(c.target.rsplit('::', 1)[-1] == 'strip_prefix' for c in F.body(q).calls) for q in callers) and bool(callers)
        if okc and only_signed_callers:
            rep.ok('R16.5', p, 'called only on the sign-stripped remainder; the caller negates the magnitude')
        else:
            rep.viol('R16.5', p + '|sign-before-split', 'integer and fractional digits are combined as int * 10^k + frac on a string that may still carry its sign: for "-1.5" the fraction is added to a negative integer part (-1/2 instead of -3/2)', b.loc(0))
        chk = [c for c in b.calls if c.target.rsplit('::', 1)[-1] in ('checked_sub', 'checked_add')]
        raw = [t for _bb, t in b.asserts() if t[3].startswith('Overflow') and not (t[3] == 'Overflow:Add' and any(o[0] == 'k' and re.match(r'^[0-4]_usize$', o[2]) for o in t[4]))]
        if chk and not raw:
            rep.ok('R16.5', p + ' exponent', 'checked arithmetic')
        else:
            rep.viol('R16.5', p + '|exponent', 'exponent arithmetic is unchecked (%s)' % [t[3] for t in raw], b.loc(0))
    for p in dec:
        b = F.body(p)
        for c in b.calls:
            if c.target.rsplit('::', 1)[-1] in ('trim_matches', 'trim_start_matches', 'trim_left_matches', 'trim_start', 'trim_left'):
                rep.viol('R16.5', p + '|drops-leading-digits|' + c.target.rsplit('::', 1)[-1], 'decimal parsing drops characters from the front of a digit field (%s): leading zeros of a fraction are significant for its place value' % c.target.rsplit('::', 1)[-1], c.loc())
        ng = [t for _bb, t in b.asserts() if t[3] == 'OverflowNeg']
        if ng:
            rep.viol('R16.5', p + '|neg', 'unchecked negation of an i32 exponent', b.loc(0))
    rep.ok('R16.5', 'decimal.rs scan', '%d functions scanned for digit-dropping trims and unchecked negation' % len(dec))
    # ---------------- R16.6
    rep.rule('R16.6', 'crate-wide census of lossy conversions: every narrowing or sign-changing integer `as` cast and every float->int `as` '
             'cast is in the reviewed table with an exact count per function (conversions are exact or rejected, never silently truncated)')
    from .census import check_casts
    n6 = check_casts(C, set(F.fns), rep, 'R16.6', T.CAST_TABLE, 'conversion')
    rep.floor('R16.6', 'lossy casts in the crate', n6, 15)
    # ---------------- R16.7
    rep.rule('R16.7', 'text -> number conversions are arbitrary precision: every str::parse::<T> / from_str_radix in the crate has T = BigInt or f64 '
             '(the float fallback), except the reviewed machine-typed sites whose failure is reported as an error and never falls back to a float; '
             'json_decode asks as_i64 before as_f64 (a negative 64-bit integer must not travel through a double)')
    MACHINE_PARSE = [
        (r'^core::parse_format_string$', 'usize', 1, 'pad width of a format flag: failure is a parse error'),
        (r'^decimal::parse_unsigned_decimal_exactly$', 'i32', 1, 'decimal exponent: failure is an error (R16.5 checks the exponent arithmetic)'),
        (r"^lex::Lexer::<'a>::lex$", 'u32', 1, 'radix prefix of NrDIGITS: range-checked against 2..=36 | 64, failure is an invalid token'),
    ]
    npar = 0
    perp = {}
    for p_ in sorted(F.bodies_raw):
        if '::promoted' in p_:
            continue
        b_ = F.body(p_)
        for c in b_.calls:
            if re.search(r'str>::parse$|from_str_radix$|FromStr>::from_str$', c.target):
                npar += 1
                g = c.callee.get('g') or []
                ty = str(g[0]) if g else (c.target.split(' for ')[-1] if ' for ' in c.target else '?')
                if re.search(r'from_str_radix$', c.target) and not g:
                    ty = c.target.rsplit('::', 2)[-2]
                if ty in ('num::BigInt', 'f64', 'num_bigint::BigInt'):
                    continue
                perp.setdefault((C.fn_key(p_), ty), []).append(c)
    paths7 = {C.fn_key(p_): p_ for p_ in F.bodies_raw if '::promoted' not in p_}

    def spare7(g, ty_):
        gk = C.fn_key(g)
        e_ = [e for e in MACHINE_PARSE if re.search(e[0], gk) and e[1] == ty_]
        if not e_:
            return None
        return e_[0][2] - len(perp.get((gk, ty_), []))
    for (fk, ty), lst in sorted(perp.items()):
        ent = [e for e in MACHINE_PARSE if re.search(e[0], fk) and e[1] == ty]
        if ent and len(lst) <= ent[0][2]:
            rep.ok('R16.7', '%s parse::<%s>' % (fk, ty), 'reviewed: ' + ent[0][3])
        elif not ent and fk in paths7 and C.moved_from_reviewed(paths7[fk], len(lst), lambda g, ty_=ty: spare7(g, ty_)):
            rep.ok('R16.7', '%s parse::<%s> (moved)' % (fk, ty), 'helper reached only from the reviewed function, which lost the site')
        else:
            rep.viol('R16.7', '%s|parse|%s' % (fk, ty), '%s parses text into the machine type %s: digits beyond its range are rejected or, with a float fallback, silently rounded - number(str(n)) == n must hold for integers of any size' % (fk, ty), lst[0].loc())
    rep.floor('R16.7', 'text->number parse sites', npar, 12)
    try:
        jd = [p_ for p_ in F.fns if p_ == 'json_decode' or p_.endswith('::json_decode')]
        jb = F.body(jd[0])
        i64s = [c for c in jb.calls if c.target.endswith('Number::as_i64')]
        f64s = [c for c in jb.calls if c.target.endswith('Number::as_f64')]
        if i64s and f64s and all(jb.dominates(i64s[0].bb, f.bb) for f in f64s):
            rep.ok('R16.7', 'json_decode Number', 'as_i64 first, as_f64 only when that fails')
        else:
            rep.viol('R16.7', 'json_decode|Number|as_i64', 'json_decode does not try Number::as_i64 before falling back to as_f64 (as_i64 calls: %d): negative integers beyond 2^53 come back rounded' % len(i64s), jb.loc(0))
    except (IndexError, CheckError) as e:
        rep.error('R16.7', 'json_decode not found: %s' % e)
    # ---------------- R16.9
    rep.rule('R16.9', 'format flags belong to one interpolation: parse_format_string creates a fresh MyFmtFlags inside the scanning loop (the '
             'constructor call lies on a CFG cycle), so `F"{255 #x} {255}"` renders the second number in decimal; and a dict literal with a '
             'repeated key keeps the LAST binding (HashMap::insert, as json_decode does), not the first (entry().or_insert)')
    pfs = 'core::parse_format_string'
    if F.has_fn(pfs):
        pb9 = F.body(pfs)
        news9 = [c for b_ in family_bodies(F, pfs) for c in b_.calls if c.target.endswith('MyFmtFlags::new')]
        in_loop = [c for c in news9 if c.body.on_cycle(c.bb) or c.body.path != pfs]
        if news9 and len(in_loop) == len(news9):
            rep.ok('R16.9', 'parse_format_string flags', 'fresh MyFmtFlags per interpolation')
        elif news9:
            rep.viol('R16.9', pfs + '|flags-hoisted', 'parse_format_string creates its MyFmtFlags once, outside the loop over interpolations: base / pad / align flags of one `{...}` leak into the following ones', news9[0].loc())
        else:
            rep.note('R16.9: parse_format_string builds its flags without MyFmtFlags::new (idiom not recognised): not decided')
    else:
        rep.error('R16.9', pfs + ' missing')
    ev9 = F.body('eval::evaluate')
    me9 = find_match(F, 'eval::evaluate', r'core::Expr\b', min_arms=30)
    dreg = set()
    for i9, a9 in enumerate(me9['arms']):
        if any(p_ == 'core::Expr::Dict' for p_ in pat_paths(a9['pat'])):
            dreg |= arm_region(F, ev9, me9, i9)
    ins9 = [c for c in ev9.calls_in(dreg) if c.target.rsplit('::', 1)[-1] == 'insert' and 'HashMap' in c.target]
    first9 = [c for c in ev9.calls_in(dreg) if c.target.rsplit('::', 1)[-1] in ('or_insert', 'or_insert_with', 'try_insert', 'or_default')]
    if first9:
        rep.viol('R16.9', 'eval::evaluate|Dict|first-binding-wins', 'a dict literal keeps the first binding of a repeated key (%s): `{"a": 1, "a": 2}` evaluates to {"a": 1} while json_decode of the same text gives {"a": 2}' % first9[0].target.rsplit('::', 1)[-1], first9[0].loc())
    elif ins9:
        rep.ok('R16.9', 'Expr::Dict', 'HashMap::insert: the last binding of a repeated key wins')
    else:
        rep.note('R16.9: Expr::Dict fills its map in an unrecognised way: not decided')
    # ---------------- R16.8
    rep.rule('R16.8', 'repr of a number lexes back: NNum::repr renders every component with the plain Display form (`{}` + suffix q / f / j, no '
             'flags, width or precision) - Debug / LowerExp switch floats to exponent notation, and `1e-7f` is a float followed by an identifier')
    rp = 'nnum::NNum::repr'
    if not F.has_fn(rp):
        rep.error('R16.8', rp + ' missing')
    else:
        rb8 = F.body(rp)
        ctors = [c for c in rb8.calls if 'fmt::rt::Argument' in c.target and c.target.rsplit('::', 1)[-1].startswith('new_')]
        badc = [c for c in ctors if not c.target.endswith('new_display')]
        badt = []
        for c, tpl in fmt_templates(rb8):
            if tpl is None:
                badt.append((c, 'undecodable'))
                continue
            for k_, d_ in tpl:
                if k_ == 'arg' and (d_['flags'] is not None or d_['width'] is not None or d_['precision'] is not None):
                    badt.append((c, d_))
        if ctors and not badc and not badt:
            rep.ok('R16.8', rp, '%d component(s), all plain Display' % len(ctors))
        else:
            c0 = (badc or [x[0] for x in badt])[0]
            rep.viol('R16.8', rp + '|format', 'NNum::repr formats a component with %s: the text of a float then uses a notation (exponent form, padding) that does not evaluate back to the number - eval(repr(1e-7)) fails' % (c0.target.rsplit('::', 1)[-1] if badc else 'format flags %s' % (badt[0][1],)), c0.loc())
    # ---------------- R16.10
    rep.rule('R16.10', 'repr of a string reads back: in write_string every path taken when flags.repr is set formats the text with the '
             'Debug formatter (which escapes quotes, backslashes and control characters), and the Display formatter is used only when '
             'flags.repr is clear - a repr path that writes the raw text between quotes leaves backslashes unescaped')
    ws = 'core::write_string'
    if not F.has_fn(ws):
        rep.error('R16.10', ws + ' missing')
    else:
        wb = F.body(ws)
        starts = [s_[1][0] for i in wb.reach for s_ in wb.stmts(i)
                  if s_[0] == 'a' and len(s_[1]) == 1 and s_[2][0] == 'use' and s_[2][1][0] in ('c', 'm')
                  and re.match(r'f\d+:repr$', str(s_[2][1][1][-1]))]
        sws = [sw for st_ in starts for sw in bool_switches(wb, st_)]
        dbg = {c.bb for c in wb.calls if c.target.endswith('::new_debug') or c.target.endswith('::new_debug_noop')}
        dsp = {c.bb for c in wb.calls if 'fmt::rt::Argument' in c.target and not c.target.rsplit('::', 1)[-1].startswith('new_debug')}
        # writes made by helpers / closures of write_string count as non-Debug writes unless they are Debug constructors
        other = [c for fb in family_bodies(F, ws) if fb is not wb and fb.path != wb.path for c in fb.calls if 'fmt::rt::Argument' in c.target]
        rets = {i for i in wb.reach if wb.term(i)[0] == 'ret'}
        if not sws:
            rep.error('R16.10', 'write_string does not branch on flags.repr')
        elif other:
            rep.error('R16.10', 'write_string formats through a helper (%s): the rule reads one body' % other[0].target)
        else:
            bad = None
            for (bb, tt, ff) in sws:
                on_true = wb.reachable_from(tt, avoid={bb})
                if dsp & on_true:
                    bad = ('display-on-repr', 'a non-Debug format argument is built on a path where flags.repr is set', sorted(dsp & on_true)[0])
                elif not wb.every_path_passes(tt, rets, dbg):
                    bad = ('repr-without-debug', 'a path with flags.repr set returns without formatting the text with {:?}', tt)
            if bad:
                rep.viol('R16.10', '%s|%s' % (ws, bad[0]), bad[1] + ': repr("a\\\\tb") then does not evaluate back to the string', wb.loc(bad[2]))
            else:
                rep.ok('R16.10', ws, '%d switch(es) on flags.repr; Debug on every repr path, Display only off it' % len(sws))
    rep.undecided += ['int(str(n)) == n and the other round trips as equations', 'base64 / gzip / JSON codecs themselves (dependencies)']
    return META
