"""Reporting: rule instances, violations, known findings, evidence files."""
import json
import os
import time

VERIF = os.path.dirname(os.path.dirname(os.path.abspath(__file__)))
EVIDENCE_DIR = None


class Report:
    def __init__(self, pid, tier, seed):
        self.pid = pid
        self.tier = tier
        self.seed = seed
        self.t0 = time.time()
        self.instances = []      # (rule, instance, detail) examined and passing
        self.violations = []     # dict(rule, key, msg, loc)
        self.rules = {}          # rule -> description
        self.rule_counts = {}
        self.samples = []
        self.notes = []
        self.exhaustive_rules = set()
        self.undecided = []
        self.extra = {}

    def rule(self, rid, desc, exhaustive=False):
        self.rules[rid] = desc
        self.rule_counts.setdefault(rid, 0)
        if exhaustive:
            self.exhaustive_rules.add(rid)

    def ok(self, rid, instance, detail=None, sample=False):
        self.instances.append((rid, instance, detail))
        self.rule_counts[rid] = self.rule_counts.get(rid, 0) + 1
        if sample or sum(1 for s in self.samples if s.get('rule') == rid) < 2:
            self.samples.append({'rule': rid, 'instance': instance, 'verdict': 'holds',
                                 'detail': detail})

    def viol(self, rid, key, msg, loc=None):
        """key: stable identifier without line numbers: 'fn-def-path|construct|ordinal'"""
        self.rule_counts[rid] = self.rule_counts.get(rid, 0) + 1
        self.violations.append({'rule': rid, 'key': '%s|%s' % (rid, key), 'msg': msg, 'loc': loc})

    def error(self, rid, msg):
        """fail closed: missing anchor / count below floor / not analysable where required"""
        self.violations.append({'rule': rid, 'key': '%s|check-error|%s' % (rid, msg), 'msg':
                                'CHECK ERROR (fails closed): ' + msg, 'loc': None})

    def floor(self, rid, what, count, floor):
        if count < floor:
            self.error(rid, '%s: %d instance(s) found, floor is %d' % (what, count, floor))

    def note(self, text):
        self.notes.append(text)


def load_known():
    known = {}
    fixed = []
    p = os.path.join(VERIF, 'known_findings.txt')
    if os.path.exists(p):
        for line in open(p):
            line = line.strip()
            if not line or line.startswith('#'):
                continue
            if line.startswith('known:'):
                # known: property=C10 key=<key> :: <description>
                rest = line[len('known:'):].strip()
                parts = rest.split(' :: ', 1)
                head = parts[0]
                desc = parts[1] if len(parts) > 1 else ''
                pid = None
                key = None
                for tok in head.split(' ', 1):
                    if tok.startswith('property='):
                        pid = tok[len('property='):]
                hk = head.split(' key=', 1)
                if len(hk) == 2:
                    key = hk[1].strip()
                if pid and key:
                    known[(pid, key)] = desc
            elif line.startswith('fixed:'):
                fixed.append(line)
    return known, fixed


def finish(rep, level, explanation, trusted_base, assumptions, checker_cmd=None, extra=None):
    known, _fixed = load_known()
    out_lines = []
    unlisted = []
    listed = []
    import re as _re

    def norm(k):
        # a listed finding stays the same finding when its site moves between a function and its own closures
        return _re.sub(r'::\{closure#\d+\}', '', k)
    known_norm = {(p, norm(k)) for (p, k) in known}
    for v in rep.violations:
        if (rep.pid, v['key']) in known or (rep.pid, norm(v['key'])) in known_norm:
            listed.append(v)
        else:
            unlisted.append(v)
    evdir = EVIDENCE_DIR or os.path.join(VERIF, 'evidence')
    os.makedirs(os.path.join(evdir, 'replay'), exist_ok=True)
    for v in listed:
        out_lines.append('KNOWN-FINDING: property=%s %s -- %s%s' % (
            rep.pid, v['key'], v['msg'], (' @ ' + v['loc']) if v['loc'] else ''))
    replay_path = None
    if unlisted:
        replay_path = os.path.join(evdir, 'replay', '%s.json' % rep.pid)
        with open(replay_path, 'w') as f:
            json.dump({'property': rep.pid, 'tier': rep.tier, 'violations': unlisted}, f, indent=1)
        for v in unlisted:
            out_lines.append('  violation: [%s] %s%s\n    key: %s' % (
                v['rule'], v['msg'], (' @ ' + v['loc']) if v['loc'] else '', v['key']))
        out_lines.append('VIOLATION property=%s replay=%s' % (rep.pid, replay_path))

    n_inst = len(rep.instances) + len(rep.violations)
    distinct = len({(r, json.dumps(i, sort_keys=True, default=str)) for r, i, _d in rep.instances})
    samples = rep.samples[:40]
    for v in (listed + unlisted)[:10]:
        samples.append({'rule': v['rule'], 'instance': v['key'], 'verdict':
                        'known-finding' if v in listed else 'VIOLATION', 'detail': v['msg']})
    cov = {
        'explanation': explanation,
        'rules': [{'id': r, 'rule': d, 'instances_examined': rep.rule_counts.get(r, 0),
                   'exhaustive_table': r in rep.exhaustive_rules} for r, d in rep.rules.items()],
        'evaluations': n_inst,
        'distinct_nontrivial': distinct,
        'rule': 'one evaluation = one rule instance (a call site, match arm, table row, type path or '
                'CFG query) extracted from rustc HIR/MIR of /repo on this run; distinct = distinct '
                '(rule, instance) pairs that passed; trivial instances are not generated',
        'samples': samples,
        'exhaustive': bool(rep.exhaustive_rules) and all(
            r in rep.exhaustive_rules for r in rep.rules) if rep.rules else False,
        'trusted_base': trusted_base,
        'known_findings_reported': len(listed),
        'not_decided': rep.undecided,
        'notes': rep.notes,
    }
    if level == 'proof':
        cov['obligations'] = n_inst
        cov['discharged'] = len(rep.instances)
        cov['checker_cmd'] = checker_cmd or ('./check %s' % rep.pid)
    if extra:
        cov.update(extra)
    cov.update(rep.extra)
    ev = {
        'property_id': rep.pid,
        'tier': rep.tier,
        'seed': rep.seed,
        'level': level,
        'coverage': cov,
        'assumptions': assumptions,
        'wall_s': round(time.time() - rep.t0, 3),
        'violations': len(unlisted),
    }
    evp = os.path.join(evdir, '%s.json' % rep.pid)
    tmp = evp + '.tmp.%d' % os.getpid()
    with open(tmp, 'w') as f:
        json.dump(ev, f, indent=1, default=str)
    os.replace(tmp, evp)
    return out_lines, (1 if unlisted else 0)
