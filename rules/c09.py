"""C09 - dictionaries keyed by value equality: Eq/Hash coherence discipline of ObjKey (static clauses)."""
import re
from .core import (family_bodies, family_calls, builds_error, CheckError, find_match, arm_region, pat_str, strip_ref, origins, only_when, pat_paths,
                   Registry, CallGraph, op_local)

META = {
    'level': 'other',
    'explanation': (
        'Decides the coherence discipline k1 == k2 => hash(k1) == hash(k2) structurally, not operation histories: (R9.1) '
        'canonical-sink discipline of NNum::total_hash (integral values of every level reach the NInt hash; non-integral '
        'rationals and floats share one issuing function over the exact reduced fraction; the imaginary part is hashed only '
        'under a test of im); (R9.2) total_eq_of_key_seqs and total_hash_of_key walk the same Seq kinds with matching element '
        'functions, lists/vectors include the length, and the dict arm combines per-entry hashes commutatively with a fresh '
        'hasher per entry; (R9.3) ObjKey values are built only by to_key (after check_if_valid_key, streams forced and '
        're-validated) and the From impls, and dictionary entry points obtain keys from to_key; (R9.4) every NaN hashes through '
        'one constant and key equality treats NaNs as equal.'),
    'trusted_base': ['rustc nightly HIR/MIR', 'std HashMap is a correct map given coherent Eq/Hash', 'BigRational is kept reduced with positive denominator (num-rational)'],
    'assumptions': ['operation histories over dictionaries are not enumerated'],
}


def closure_calls(F, cg, fn, depth=4):
    """in-crate call closure (direct edges) from fn, returns set of fn paths"""
    seen = set()
    st = [(fn, 0)]
    while st:
        x, d = st.pop()
        if x in seen or d > depth:
            continue
        seen.add(x)
        for y in cg.edges.get(x, ()):
            if y != '<indirect>' and y.startswith(('nnum::', 'nint::', '<nint::', '<nnum::', 'core::')):
                st.append((y, d + 1))
    return seen


def run(F, rep, tier):
    cg = CallGraph(F)
    # ---------------- R9.1
    rep.rule('R9.1', 'NNum::total_hash: (i) the Int, Rational and Float arms all reach <NInt as Hash>::hash for integral values; (ii) the '
             'Rational arm and the non-integral finite Float path hash through the same function over the exact fraction; (iii) in the '
             'Complex arm the imaginary part is hashed only under a test of im', exhaustive=True)
    th = F.anchor('nnum::NNum::total_hash')
    tb = F.body(th)
    tm = find_match(F, th, r'nnum::NNum', min_arms=4)
    nint_hash = '<nint::NInt as std::hash::Hash>::hash'
    arm_callees = {}
    for i, a in enumerate(tm['arms']):
        v = pat_paths(a['pat'])[0].rsplit('::', 1)[-1]
        regn = arm_region(F, tb, tm, i)
        arm_callees[v] = (regn, [c for c in tb.calls_in(regn)])
    if set(arm_callees) != {'Int', 'Rational', 'Float', 'Complex'}:
        rep.error('R9.1', 'total_hash arms: %s' % sorted(arm_callees))
    reach = {}
    for v, (regn, cs) in arm_callees.items():
        r = set()
        for c in cs:
            if c.target == nint_hash:
                r.add(nint_hash)
            if F.has_fn(c.target):
                r |= closure_calls(F, cg, c.target)
        reach[v] = r
    for v in ('Int', 'Rational', 'Float'):
        if nint_hash in reach.get(v, ()):
            rep.ok('R9.1', '(i) %s arm' % v, 'reaches <NInt as Hash>::hash')
        else:
            rep.viol('R9.1', 'total_hash|%s|no-int-sink' % v, 'the %s arm of total_hash never hashes through NInt: an integral %s does not hash like the equal integer' % (v, v.lower()), tb.loc(0))
    # (ii)
    rat_direct = {c.target for c in arm_callees.get('Rational', ((), []))[1] if F.has_fn(c.target)}
    shared = [f for f in rat_direct if f in reach.get('Float', ())]
    if shared:
        rep.ok('R9.1', '(ii) rational/float share', 'both go through %s' % sorted(shared))
        # that function: integral branch -> NInt hash under is_integer; otherwise numer and denom both hashed
        hf = F.body(shared[0])
        isint = [c for c in hf.calls if c.target.endswith('::is_integer')]
        nh = [c for c in hf.calls if c.target == nint_hash]
        nd = [c.target.rsplit('::', 1)[-1] for c in hf.calls]
        if isint and nh and only_when(hf, isint[0], [c.bb for c in nh], want=True)[0] and 'numer' in nd and 'denom' in nd:
            rep.ok('R9.1', '(ii) %s' % shared[0], 'integral -> NInt hash; otherwise numer and denom')
        else:
            rep.viol('R9.1', shared[0] + '|shape', 'the shared fraction hash does not send integral values to the NInt hash and others to (numer, denom)', hf.loc(0))
    else:
        rep.viol('R9.1', 'total_hash|rational-float-sink', 'non-integral rationals and floats are hashed by unrelated code paths: 1/2 and 0.5 are equal keys with different hashes', tb.loc(0))
    # to_bits only for non-finite
    for fn in sorted(reach.get('Float', ())) + [th]:
        if not F.has_fn(fn):
            continue
        b = F.body(fn)
        for c in b.calls:
            if c.target.endswith('::to_bits'):
                ff = [x for x in b.calls if x.target.rsplit('::', 1)[-1] in ('from_float',)]
                # must be on the None branch of from_float or under is_infinite
                okb = False
                for m in F.matches.get(fn, []):
                    if 'Option<num::rational::Ratio' in m['scrut_ty']:
                        for i, a in enumerate(m['arms']):
                            if any(p.endswith('::None') for p in pat_paths(a['pat'])) and c.bb in arm_region(F, b, m, i):
                                okb = True
                if okb:
                    rep.ok('R9.1', '%s: to_bits' % fn, 'only when the float has no exact fraction (infinities)')
                else:
                    rep.viol('R9.1', fn + '|to_bits', 'a finite float is hashed by its bit pattern: it cannot agree with the equal rational', c.loc())
    # (iii)
    regn, cs = arm_callees.get('Complex', (set(), []))
    fcalls = [c for c in cs if F.has_fn(c.target) and c.target in reach.get('Float', set()) | {x.target for x in arm_callees.get('Float', ((), []))[1]}]
    if len(fcalls) >= 2:
        entry = min(regn)
        first, second = fcalls[0], fcalls[-1]
        cond = not tb.postdominates(second.bb, first.bb)
        # the condition must be a test of the imaginary part alone (im compared with a constant): a test that also looks at re
        # (z.is_zero()) hashes im for 1+0i, which equals 1
        badg = None
        if cond:
            between = {x for x in tb.reachable_from(first.bb) if x in regn and second.bb in tb.reachable_from(x) and x != second.bb}
            for x in sorted(between):
                t_ = tb.term(x)
                if t_[0] != 'switch' or t_[1][0] not in ('c', 'm') or len(tb.succ[x]) < 2:
                    continue
                if all(second.bb in tb.reachable_from(y, avoid={x}) for y in tb.succ[x]):
                    continue      # does not decide whether im is hashed
                ds = tb.defs().get(t_[1][1][0], [])
                okg = False
                if len(ds) == 1 and ds[0][2] == 'a' and ds[0][3][2][0] == 'bin' and ds[0][3][2][1] in ('Ne', 'Eq', 'Lt', 'Gt', 'Le', 'Ge'):
                    ops_ = []
                    for o in ds[0][3][2][2:4]:
                        for _ in range(4):      # look through copies of the field into temporaries
                            if o[0] in ('c', 'm') and len(o[1]) == 1:
                                d2 = tb.defs().get(o[1][0], [])
                                if len(d2) == 1 and d2[0][2] == 'a' and d2[0][3][2][0] == 'use':
                                    o = d2[0][3][2][1]
                                    continue
                            break
                        ops_.append(o)
                    okg = all(o[0] == 'k' or (o[0] in ('c', 'm') and any(isinstance(pr, str) and pr.endswith(':im') for pr in o[1][1:])) for o in ops_) \
                        and any(o[0] in ('c', 'm') for o in ops_)
                if not okg:
                    badg = x
        if cond and badg is not None:
            rep.viol('R9.1', 'total_hash|Complex|im-guard-not-im-only', 'whether the imaginary part is hashed does not depend on im alone (the guard is not a comparison of z.im with a constant): 1+0i and 1 are equal keys with different hashes', tb.loc(badg))
        elif cond:
            rep.ok('R9.1', '(iii) Complex arm', 'im hashed conditionally, under a test of im alone')
        else:
            rep.viol('R9.1', 'total_hash|Complex|im-unconditional', 'the imaginary part is always hashed: 1+0i and 1 are equal keys with different hashes', second.loc())
    else:
        rep.viol('R9.1', 'total_hash|Complex|shape', 'Complex arm does not hash re and (conditionally) im through the float hash', tb.loc(0))

    # ---------------- R9.4
    rep.rule('R9.4', 'NaN is one key: the float hash writes one constant under is_nan and never reaches to_bits / the fraction hash on '
             'that branch; total_eq_of_keys(Num, Num) is a == b || (a.is_nan() && b.is_nan())')
    cf = F.anchor('nnum::consistent_hash_f64')
    cb = F.body(cf)
    nan = [c for c in cb.calls if c.target.endswith('::is_nan')]
    wr = [c for c in cb.calls if re.search(r'Hasher::write_u\d+$', c.target) and c.args[1][0] == 'k']
    oth = [c for c in cb.calls if c.target.rsplit('::', 1)[-1] in ('to_bits', 'from_float') or c.target.endswith('consistent_hash_rational')]
    if nan and wr and only_when(cb, nan[0], [c.bb for c in wr], want=True)[0] and only_when(cb, nan[0], [c.bb for c in oth], want=False)[0]:
        rep.ok('R9.4', 'consistent_hash_f64', 'is_nan -> write constant; bits/fraction only when not NaN')
    else:
        rep.viol('R9.4', cf + '|nan-constant', 'NaN floats are not hashed through a single constant (payload/sign bits leak into the hash while key equality treats all NaNs as equal)', cb.loc(0))
    ek = F.anchor('core::total_eq_of_keys')
    eb = F.body(ek)
    em = find_match(F, ek, r'core::Obj', min_arms=3)
    done = False
    for i, a in enumerate(em['arms']):
        ps = pat_paths(a['pat'])
        if ps and all(p == 'core::Obj::Num' for p in ps):
            names = [c.target.rsplit('::', 1)[-1] for c in eb.calls_in(arm_region(F, eb, em, i))]
            done = True
            if names.count('is_nan') == 2 and 'eq' in names:
                rep.ok('R9.4', 'total_eq_of_keys Num arm', 'eq + is_nan on both')
            else:
                rep.viol('R9.4', ek + '|nan-eq', 'key equality on numbers is not a == b || both NaN (%s)' % names, eb.loc(0))
    if not done:
        rep.error('R9.4', 'total_eq_of_keys Num arm not found')

    # ---------------- R9.2
    rep.rule('R9.2', 'total_eq_of_key_seqs and total_hash_of_key cover the same Seq kinds with matching recursive functions; list/vector '
             'hashes include the length; the Dict arm uses a fresh DefaultHasher per entry inside the loop, never feeds the outer state '
             'inside the loop, and combines entry hashes only with wrapping_add / wrapping_mul', exhaustive=True)
    hk = F.anchor('core::total_hash_of_key')
    hb = F.body(hk)
    hm = find_match(F, hk, r'core::Seq', min_arms=5)
    qk = F.anchor('core::total_eq_of_key_seqs')
    qb = F.body(qk)
    qm = find_match(F, qk, r'core::Seq', min_arms=5)
    hkinds = {}
    for i, a in enumerate(hm['arms']):
        v = pat_paths(a['pat'])[0].rsplit('::', 1)[-1]
        hkinds[v] = arm_region(F, hb, hm, i)
    qkinds = {}
    for i, a in enumerate(qm['arms']):
        ps = [x.rsplit('::', 1)[-1] for x in pat_paths(a['pat'])]
        if len(ps) == 2 and ps[0] == ps[1]:
            regn = arm_region(F, qb, qm, i)
            names = [c.target for c in qb.calls_in(regn)]
            # a per-kind comparison split off into a private helper of this function still belongs to the arm
            fam_paths = {b_.path for b_ in family_bodies(F, qk)}
            for c in qb.calls_in(regn):
                if c.target in fam_paths and c.target != qk:
                    for b_ in family_bodies(F, c.target, depth=1):
                        names += [c2.target for c2 in b_.calls]
            for cl in [s[2][2] for _bb, s in qb.aggregates(regn) if s[2][1] == 'closure']:
                names += [c.target for c in F.body(cl).calls]
                for cl2 in F.closures_of(cl):
                    names += [c.target for c in F.body(cl2).calls]
            qkinds[ps[0]] = names
    elem = {'List': ('core::total_eq_of_keys', 'core::total_hash_of_key'), 'Vector': ('nnum::NNum::total_eq', 'nnum::NNum::total_hash'),
            'Dict': ('core::total_eq_of_keys', 'core::total_hash_of_key')}
    for kind in ('String', 'List', 'Dict', 'Vector', 'Bytes'):
        if kind not in hkinds or kind not in qkinds:
            rep.viol('R9.2', 'kinds|%s' % kind, 'Seq::%s handled by %s' % (kind, 'hash only' if kind in hkinds else ('eq only' if kind in qkinds else 'neither')), hb.loc(0))
            continue
        hnames = [c.target for c in hb.calls_in(hkinds[kind])]
        if kind in elem:
            qe, he = elem[kind]
            if qe in qkinds[kind] and he in hnames:
                rep.ok('R9.2', 'Seq::%s elements' % kind, '%s <-> %s' % (qe, he))
            else:
                rep.viol('R9.2', 'elements|%s' % kind, 'element functions disagree for Seq::%s: eq uses %s, hash uses %s' % (kind, [x for x in qkinds[kind] if 'total' in x], [x for x in hnames if 'total' in x]), hb.loc(min(hkinds[kind])))
        else:
            rep.ok('R9.2', 'Seq::%s' % kind, 'std eq <-> std hash')
        if kind in ('List', 'Vector'):
            if any(n.endswith('::write_usize') for n in hnames) and any(n.endswith('::len') for n in hnames):
                rep.ok('R9.2', 'Seq::%s length' % kind, 'length written before the elements')
            else:
                rep.viol('R9.2', 'length|%s' % kind, 'the %s hash omits the length' % kind, hb.loc(min(hkinds[kind])))
    if 'Stream' in hkinds and any('panic' in c.target for c in hb.calls_in(hkinds['Stream'])):
        rep.ok('R9.2', 'Seq::Stream', 'not hashable (guarded by to_key, see R9.3)')
    # tags distinct
    tags = {}
    for kind, regn in hkinds.items():
        for c in hb.calls_in(regn):
            if c.target.endswith('::write_u8') and c.args[1][0] == 'k':
                tags.setdefault(kind, c.args[1][2])
    if len(set(tags.values())) == len(tags) and len(tags) >= 5:
        rep.ok('R9.2', 'kind tags', tags)
    else:
        rep.viol('R9.2', 'tags', 'kind tags are not pairwise distinct: %s' % tags, hb.loc(0))
    # dict arm
    dreg = hkinds.get('Dict', set())
    dcalls = hb.calls_in(dreg)
    news = [c for c in dcalls if c.target.endswith('DefaultHasher::new')]
    inner_hash = [c for c in dcalls if c.target == hk]
    fin = [c for c in dcalls if c.target.endswith('::finish')]
    outer_writes = [c for c in dcalls if re.search(r'Hasher::write_u64$', c.target)]
    okd = True
    why = []
    if not news or not all(hb.on_cycle(c.bb) for c in news):
        okd = False
        why.append('DefaultHasher::new is not created per entry inside the loop')
    for c in inner_hash:
        if not hb.on_cycle(c.bb):
            continue
        rs = hb.roots(c.args[1])
        if any(r[0] == 'param' and r[1] == 2 for r in rs):
            okd = False
            why.append('an entry is hashed into the outer state inside the loop (order dependent)')
        if news and not any(r[0] == 'call' and r[1].endswith('DefaultHasher::new') for r in rs):
            okd = False
            why.append('an entry is not hashed into the fresh per-entry hasher')
    if any(hb.on_cycle(c.bb) for c in outer_writes):
        okd = False
        why.append('outer state written inside the loop')
    comb = [c.target.rsplit('::', 1)[-1] for c in dcalls if hb.on_cycle(c.bb) and 'wrapping_' in c.target]
    noncomm = [s[2][1] for bb in dreg if hb.on_cycle(bb) for s in hb.stmts(bb) if s[0] == 'a' and s[2][0] == 'bin' and s[2][1] in ('BitXor', 'Shl', 'Shr', 'Sub', 'Rem', 'Div')]
    if not comb or set(comb) - {'wrapping_add', 'wrapping_mul'}:
        okd = False
        why.append('combiner is %s' % comb)
    if len(fin) < 1 or not all(hb.on_cycle(c.bb) for c in fin):
        okd = False
        why.append('finish() not taken per entry')
    if okd:
        rep.ok('R9.2', 'Dict arm', 'fresh hasher per entry, commutative combiner %s, outer writes after the loop' % sorted(set(comb)))
    else:
        rep.viol('R9.2', hk + '|Dict|order-independence', 'nested-dict hash depends on iteration order: ' + '; '.join(sorted(set(why))), hb.loc(min(dreg)) if dreg else None)
    # eq: Dict compares lengths and looks every entry up
    dn = qkinds.get('Dict', [])
    if any(x.endswith('::len') for x in dn) and any(x.endswith('::get') for x in dn):
        rep.ok('R9.2', 'Dict equality', 'same length and every entry found in the other')
    else:
        rep.viol('R9.2', qk + '|Dict', 'dict key equality no longer compares length + per-entry lookup', qb.loc(0))

    # ---------------- R9.3
    rep.rule('R9.3', 'ObjKey values are constructed only in to_key (dominated by check_if_valid_key) and the From<usize|String|&str> '
             'impls; the stream arm of to_key re-enters to_key on the forced list; check_if_valid_key rejects Stream, Func, Instance and '
             'recurses into lists and dict values; every dictionary entry point calls to_key')
    makers = {}
    for b in F.all_bodies():
        for bb, s in b.aggregates():
            if s[2][2] == 'core::ObjKey':
                makers.setdefault(b.path, []).append(bb)
    allowed = re.compile(r'^(core::to_key|<core::ObjKey as std::convert::From<(usize|std::string::String|&str)>>::from|<core::ObjKey as std::clone::Clone>::clone)$')
    for fn, bbs in sorted(makers.items()):
        if allowed.match(fn):
            rep.ok('R9.3', 'ObjKey built in %s' % fn, 'allowed constructor')
        else:
            rep.viol('R9.3', fn + '|objkey-construction', 'ObjKey is constructed outside to_key/From: an unvalidated value can become a key', F.body(fn).loc(bbs[0]))
    tk = F.anchor('core::to_key')
    kb = F.body(tk)
    chk = [c for c in kb.calls if c.target == 'core::check_if_valid_key']
    if 'core::to_key' in makers and chk and all(any(kb.dominates(c.bb, bb) for c in chk) for bb in makers['core::to_key']):
        rep.ok('R9.3', 'to_key', 'check_if_valid_key dominates every ObjKey construction')
    else:
        rep.viol('R9.3', tk + '|unvalidated', 'to_key builds an ObjKey on a path that did not pass check_if_valid_key', kb.loc(0))
    rec = [c for c in kb.calls if c.target == tk]
    force = [c for c in kb.calls if c.target.endswith('::force')]
    if rec and force:
        rep.ok('R9.3', 'to_key stream arm', 'forces the stream and re-enters to_key (validation applies to the elements)')
    elif force:
        rep.viol('R9.3', tk + '|stream-unvalidated', 'the stream arm forces the stream but does not re-validate the resulting list', force[0].loc())
    ck = F.anchor('core::check_if_valid_key')
    ckb = F.body(ck)
    ckm = find_match(F, ck, r'core::Obj', min_arms=3)
    verdict = {}

    def alternatives(pat):
        pat = strip_ref(pat)
        if pat.get('k') == 'or':
            out = []
            for x in pat['s']:
                out += alternatives(x)
            return out
        return [pat]
    allkinds = ['Stream', 'Func', 'Instance', 'List', 'Dict', 'Null', 'Num', 'String', 'Vector', 'Bytes']
    for i, a in enumerate(ckm['arms']):
        regn = arm_region(F, ckb, ckm, i)
        cs = ckb.calls_in(regn)
        vd = 'err' if any(builds_error(F, c) for c in cs) else ('rec' if any(c.target.endswith('check_if_valid_key') for c in cs) else 'ok')
        for alt in alternatives(a['pat']):
            ps = pat_paths(alt)
            if ps:
                verdict.setdefault(ps[-1].rsplit('::', 1)[-1], vd)
            else:
                for k_ in allkinds:             # wildcard arm: every kind not decided by an earlier arm
                    verdict.setdefault(k_, vd)
    wantv = {'Stream': 'err', 'Func': 'err', 'Instance': 'err', 'List': 'rec', 'Dict': 'rec', 'Null': 'ok', 'Num': 'ok', 'String': 'ok', 'Vector': 'ok', 'Bytes': 'ok'}
    for k, w in wantv.items():
        if verdict.get(k) == w:
            rep.ok('R9.3', 'check_if_valid_key %s' % k, w)
        else:
            rep.viol('R9.3', ck + '|%s' % k, 'check_if_valid_key treats %s as %s, expected %s' % (k, verdict.get(k), w), ckb.loc(0))
    # entry points call to_key
    users = sorted({b.path for b in F.all_bodies() for c in b.calls if c.target == tk})
    rep.extra['to_key_callers'] = users
    need = ['eval::index', 'eval::set_index', 'eval::modify_existing_index', 'eval::modify_every_existing_index', 'safe_index', 'obj_in', 'uniqued']
    for fn in need:
        if any(u == fn or u.startswith(fn + '::{closure') for u in users) or (F.has_fn(fn) and any(c.target == tk for c in family_calls(F, fn))):
            rep.ok('R9.3', 'entry point %s' % fn, 'obtains keys through to_key')
        elif not F.has_fn(fn):
            rep.error('R9.3', 'entry point %s missing' % fn)
        else:
            rep.viol('R9.3', fn + '|no-to_key', 'dictionary entry point %s does not call to_key' % fn, None)
    rep.floor('R9.3', 'to_key call sites (functions)', len(users), 20)
    # HashMap<ObjKey,_> raw inserts with keys not from to_key/From/existing keys
    # ---------------- R9.5
    rep.rule('R9.5', 'the binary dict operators && and -- filter the LEFT operand (retain on the payload of parameter a, looking keys up in b) '
             'and never exchange their operands; || and ||+ extend the left operand')
    reg = Registry(F)
    for nm in ('&&', '--'):
        try:
            bp = reg.body_of(nm)
        except CheckError as e:
            rep.error('R9.5', str(e))
            continue
        b = F.body(bp)
        swaps = [c for c in b.calls if c.target in ('std::mem::swap', 'core::mem::swap')]
        ret = [c for c in b.calls if c.target.rsplit('::', 1)[-1] == 'retain']
        if swaps:
            rep.viol('R9.5', 'builtin|%s|swap' % nm, '%s exchanges its operands: the surviving entries (values, default) then come from the right dict' % nm, swaps[0].loc())
            continue
        if len(ret) != 1:
            rep.viol('R9.5', 'builtin|%s|retain' % nm, '%s is not a single retain on the left dict' % nm, b.loc(0))
            continue
        og_ = origins(b, ret[0].args[0], passthru=('make_mut', 'deref_mut', 'deref', 'get_mut', 'as_mut'))
        recv_names = {o[1] for o in og_ if o[0] == 'param'} | {('tuple.' + o[5]) for o in og_ if o[0] == 'payload' and len(o) > 5}
        # the scrutinee is the tuple (a, b): element f0 is the left operand
        recv = {2} if recv_names in ({'a'}, {'_2'}, {'tuple.f0'}) else recv_names
        cl = [r[2] for a in ret[0].args for r in b.roots(a) if r[0] == 'agg' and r[1] == 'closure']
        looks = False
        for c_ in cl:
            cb = F.body(c_)
            looks = any(x.target.rsplit('::', 1)[-1] == 'contains_key' for x in cb.calls)
        # TwoArgBuiltin closure: local 1 = closure env, 2 = a, 3 = b
        if recv == {2} and looks:
            rep.ok('R9.5', 'builtin %s' % nm, 'retain on a, membership test in b')
        else:
            rep.viol('R9.5', 'builtin|%s|bias' % nm, '%s filters the operand from parameter(s) %s instead of the left one' % (nm, sorted(recv)), ret[0].loc())
    # the result of every binary dict operator is the LEFT dict (its map and its default), whatever the sharing state of the operands
    for nm in ('||', '||+', '||-', '||++', '&&', '--'):
        try:
            bp = reg.body_of(nm)
        except CheckError as e:
            rep.error('R9.5', str(e))
            continue
        b = F.body(bp)
        dicts = [(bb, s_) for bb, s_ in b.aggregates() if s_[2][2] == 'core::Seq' and s_[2][4] == 'Dict']
        if not dicts:
            rep.error('R9.5', 'builtin %s builds no Seq::Dict result' % nm)
            continue
        bad = []
        for bb, s_ in dicts:
            for fi, x in enumerate(s_[2][5]):
                og = origins(b, x, passthru=('make_mut', 'deref', 'clone'))
                sides = {(o[5] if len(o) > 5 else '?') for o in og if o[0] == 'payload'} | {o[1] for o in og if o[0] == 'param'}
                if sides and not sides <= {'f0', 'a', '_2'}:
                    bad.append((bb, ('map', 'default')[fi] if fi < 2 else str(fi), sorted(sides)))
        if bad:
            rep.viol('R9.5', 'builtin|%s|result-side' % nm, 'the result of %s takes its %s from the right operand on some path (%s): which dict\'s default (and map) survives then depends on a run-time condition such as whether the left dict is shared' % (nm, bad[0][1], bad[0][2]), b.loc(bad[0][0]))
        else:
            rep.ok('R9.5', 'builtin %s result' % nm, '%d Seq::Dict result(s), map and default from the left operand' % len(dicts))
    # unique / set / count_distinct agree because they all identify elements through ObjKey: no `==`-based membership test (contains)
    for fn_ in ('multi_unique', 'uniqued'):
        if not F.has_fn(fn_):
            continue
        bad_ = [c for c in family_calls(F, fn_) if c.target.rsplit('::', 1)[-1] in ('contains', 'dedup', 'dedup_by', 'dedup_by_key') and 'HashSet' not in c.target and 'HashMap' not in c.target]
        if bad_:
            rep.viol('R9.2', '%s|eq-based-membership' % fn_, '%s decides "already seen" with %s (language-level ==) instead of key equality: NaN is not == to itself, so unique(V(nan, nan)) keeps both while set and count_distinct see one' % (fn_, bad_[0].target.rsplit('::', 1)[-1]), bad_[0].loc())
        else:
            rep.ok('R9.2', '%s membership' % fn_, 'through keys only')
    # ---------------- R9.7
    rep.rule('R9.7', 'set(xs) is a dictionary of its own: Set::run builds the result from a freshly collected map (every key -> null); it never '
             'returns a Seq::Dict whose map is the argument\'s (the values of a dictionary argument would survive in the "set")')
    sr = '<Set as core::Builtin>::run'
    if not F.has_fn(sr):
        rep.error('R9.7', sr + ' missing')
    else:
        sb7 = F.body(sr)
        reuse = []
        for bb, s_ in sb7.aggregates():
            if s_[2][2] == 'core::Seq' and s_[2][4] == 'Dict' and s_[2][5]:
                og = origins(sb7, s_[2][5][0], passthru=('clone', 'deref'))
                if any(o[0] in ('payload', 'param') for o in og):
                    reuse.append(bb)
        fresh = [c for c in sb7.calls if c.target.endswith('Obj::dict') or c.target.rsplit('::', 1)[-1] in ('collect', 'from_iter')]
        if reuse:
            rep.viol('R9.7', 'Set::run|reuses-argument-map', 'set(d) returns the argument dictionary\'s own map: its values are kept, so set({1: \'a\'})[1] is \'a\' instead of null and two sets of the same keys compare unequal', sb7.loc(reuse[0]))
        elif fresh:
            rep.ok('R9.7', 'Set::run', 'result collected afresh')
        else:
            rep.note('R9.7: Set::run builds its result in an unrecognised way: not decided')
            rep.ok('R9.7', 'Set::run (idiom not recognised)', 'not decided')
    # ---------------- R9.6
    rep.rule('R9.6', 'hashing never narrows: the hash functions of keys (total_hash_of_key, ObjKey/NInt Hash impls, NNum::total_hash, '
             'consistent_hash_rational / consistent_hash_f64) contain no float->int or narrowing integer `as` cast, and NInt::hash decides '
             '"fits a machine word" with to_i64() (the same test PartialEq uses), not with a bit count - a saturating or magnitude-based shortcut '
             'separates the hashes of two equal numbers at the i64 boundary')
    from .census import Census, lossy_casts
    C9 = Census(F)
    hfs = [p_ for p_ in F.fns if re.search(r'^core::total_hash_of_key$|^<core::ObjKey as std::hash::Hash>::hash$|^<nint::NInt as std::hash::Hash>::hash$|^nnum::consistent_hash_(rational|f64)$|^nnum::NNum::total_hash$', p_)]
    if len(hfs) < 6:
        rep.error('R9.6', 'hash functions found: %s' % sorted(hfs))
    hset = set(hfs)
    for h in hfs:
        hset |= set(F.closures_of(h))
    lc = lossy_casts(C9, hset)
    for row in lc:
        fk, kind, b_, bb = row[0], row[1], row[2], row[3]
        rep.viol('R9.6', '%s|cast|%s' % (fk, kind), 'the key hash %s narrows a number with `as` (%s): values at the edge of the target range saturate / wrap, so two numbers that compare equal (2.0^63 and 2^63) hash differently and a dict lookup misses' % (fk, kind), b_.loc(bb))
    if not lc:
        rep.ok('R9.6', 'hash functions', '%d function(s), no narrowing cast' % len(hset))
    nh = '<nint::NInt as std::hash::Hash>::hash'
    if F.has_fn(nh):
        nb = F.body(nh)
        bits = [c for c in nb.calls if c.target.rsplit('::', 1)[-1] in ('bits', 'magnitude', 'to_u64', 'to_i32', 'to_u32', 'iter_u64_digits', 'to_u64_digits')]
        toi = [c for c in nb.calls if c.target.endswith('to_i64')]
        if bits or not toi:
            rep.viol('R9.6', 'NInt::hash|word-test', 'NInt::hash decides whether a big-representation integer hashes like a machine word with %s instead of to_i64(): -2^63 has a 64-bit magnitude but fits a word, so the two representations of it hash apart' % (sorted({c.target.rsplit('::', 1)[-1] for c in bits}) or 'no to_i64 test'), (bits or [None])[0].loc() if bits else nb.loc(0))
        else:
            rep.ok('R9.6', 'NInt::hash word test', 'to_i64()')
    rep.undecided += ['histories of dictionary operations', 'HashMap itself (std)']
    return META
