"""C06 - integer arithmetic: representation independence of the NInt layer (static clauses)."""
import re
from .core import (family_calls, param_sources, CheckError, find_match, arm_region, pat_str, strip_ref, origins, only_when,
                   pat_paths, Registry, pat_subsumes, op_local)

META = {
    'level': 'other',
    'explanation': (
        'Decides representation independence of the dispatch layer, not arithmetic exactness (delegated to '
        'num-bigint): (R6.1) sign/signum decision tables by abstract interpretation over {neg, zero, pos}; (R6.2) every '
        'two-arm Small/Big match applies the same operation in both arms; (R6.3) operator impls pair the machine-word '
        'fast path checked_<op> with the same trait\'s BigInt operation; (R6.A) an NInt::Small is only ever built from a '
        'constant, an i64 passed in, an existing Small payload, an overflow-detecting checked operation, an exact '
        'to_i64, or overflow-free bit operations - never from a cast, a wrapping/unchecked operation or checked_shl; '
        '(R6.4) nobody outside nint.rs branches on the representation; (R6.5) Eq/Ord/Hash ignore the representation; '
        '(R6.6) zero divisors are tested before every exact division in the registered builtins; (R6.7) div_floor/'
        'mod_floor/gcd/lcm/sqrt/pow go through BigInt of both operands.'),
    'trusted_base': ['rustc nightly HIR/MIR', 'num-bigint arithmetic and num::Integer::{div_floor,mod_floor,gcd,lcm} are exact',
                     'i64::checked_{add,sub,mul,div,rem,neg,abs,pow} return None exactly on overflow / zero divisor'],
    'assumptions': ['values are not computed'],
}

NINT_FN = re.compile(r'(^|<|&|\s)nint::')


def in_nint(path):
    return path.startswith('nint::') or path.startswith('<nint::') or path.startswith('<&nint::')


HELPERS = {'from', 'into', 'clone', 'deref', 'deref_mut', 'into_owned', 'to_bigint', 'into_bigint', 'ok', 'as_ref',
           'borrow', 'new', 'unwrap', 'expect', 'map', 'map_or', 'try_from', 'try_into'}
BIN_CANON = {'Eq': 'eq', 'Ne': 'ne', 'Lt': 'lt', 'Le': 'le', 'Gt': 'gt', 'Ge': 'ge', 'Div': 'div', 'Rem': 'rem',
             'Add': 'add', 'Sub': 'sub', 'Mul': 'mul', 'BitAnd': 'bitand', 'BitOr': 'bitor', 'BitXor': 'bitxor',
             'Shl': 'shl', 'Shr': 'shr', 'Not': 'not', 'Neg': 'neg'}
CALL_CANON = {'is_zero': 'eq0', 'is_positive': 'gt0', 'is_negative': 'lt0', 'partial_cmp': 'cmp'}


def arm_ops(b, region):
    ops = set()
    for c in b.calls_in(region):
        last = c.target.rsplit('::', 1)[-1]
        if last in HELPERS:
            continue
        if last.endswith('_assign'):
            last = last[:-7]
        tr = c.callee.get('tr', '')
        if last == 'fmt':
            last = 'fmt:' + tr.rsplit('::', 1)[-1]
        ops.add(CALL_CANON.get(last, last))
    for bb in region:
        # statements that only compute the condition of a compiler-inserted Assert are not operations
        skip = set()
        t = b.term(bb)
        if t[0] == 'assert':
            need = {op_local(t[1])}
            for s in reversed(b.stmts(bb)):
                if s[0] == 'a' and len(s[1]) == 1 and s[1][0] in need and s[2][0] in ('bin', 'un'):
                    skip.add(id(s))
                    for o in s[2][2:]:
                        if isinstance(o, list) and o and o[0] in ('c', 'm'):
                            need.add(o[1][0])
        for s in b.stmts(bb):
            if id(s) in skip:
                continue
            if s[0] == 'a' and s[2][0] in ('bin', 'un'):
                opn = s[2][1]
                if opn in ('AddWithOverflow', 'SubWithOverflow', 'MulWithOverflow'):
                    opn = opn[:3]
                if opn in BIN_CANON:
                    cn = BIN_CANON[opn]
                    # comparison against the constant 0 is the sign predicate
                    if s[2][0] == 'bin' and s[2][3][0] == 'k' and s[2][3][2].startswith('0_') and cn in ('eq', 'gt', 'lt'):
                        cn = cn + '0'
                    ops.add(cn)
    return ops


def sign_table(F, b, region, entry_candidates):
    """abstract interpretation of a Small arm over a in {neg, zero, pos}: returns {abs value: set(built variants)}"""
    SV = {'neg': -1, 'zero': 0, 'pos': 1}

    def is_payload(op):
        return any(o[0] == 'payload' and o[1] == 'Small' for o in origins(b, op))

    res = {}
    for name, v in SV.items():
        built = set()
        # find region entry: the region block with no predecessor inside the region
        entries = [x for x in region if not any(p in region for p in b.pred[x])]
        seen = set()
        st = list(entries)
        env = {}
        while st:
            bb = st.pop()
            if bb in seen or bb not in region:
                continue
            seen.add(bb)
            for s in b.stmts(bb):
                if s[0] != 'a':
                    continue
                rv = s[2]
                if rv[0] == 'bin' and rv[1] in ('Eq', 'Ne', 'Lt', 'Le', 'Gt', 'Ge') and rv[3][0] == 'k' and rv[3][2].startswith('0_') and is_payload(rv[2]):
                    r = {'Eq': v == 0, 'Ne': v != 0, 'Lt': v < 0, 'Le': v <= 0, 'Gt': v > 0, 'Ge': v >= 0}[rv[1]]
                    env[s[1][0]] = r
                elif rv[0] == 'use' and op_local(rv[1]) in env and len(s[1]) == 1:
                    env[s[1][0]] = env[op_local(rv[1])]
                elif rv[0] == 'un' and rv[1] == 'Not' and op_local(rv[2]) in env:
                    env[s[1][0]] = not env[op_local(rv[2])]
                elif rv[0] == 'agg' and rv[1] == 'adt':
                    built.add((rv[2].rsplit('::', 1)[-1], rv[4], tuple(o[2] for o in rv[5] if o[0] == 'k')))
            t = b.term(bb)
            if t[0] == 'switch' and op_local(t[1]) in env:
                val = env[op_local(t[1])]
                tgt = None
                for vv, tb in t[2]:
                    if (vv == '0') == (not val):
                        tgt = tb
                if tgt is None:
                    tgt = t[3]
                st.append(tgt)
            else:
                st.extend(b.succ[bb])
        res[name] = built
    return res


def run(F, rep, tier):
    # ---------------- R6.1
    rep.rule('R6.1', 'NInt::sign (Small arm) maps neg/zero/pos to Sign::Minus/NoSign/Plus; NInt::signum maps Sign::Minus/'
             'NoSign/Plus to -1/0/+1 in the Big arm and uses i64::signum in the Small arm', exhaustive=True)
    sfn = F.anchor('nint::NInt::sign')
    sb = F.body(sfn)
    sm = find_match(F, sfn, r'nint::NInt', min_arms=2)
    want = {'neg': 'Minus', 'zero': 'NoSign', 'pos': 'Plus'}
    for i, a in enumerate(sm['arms']):
        ps = pat_paths(a['pat'])
        reg = arm_region(F, sb, sm, i)
        if 'nint::NInt::Small' in ps:
            tab = sign_table(F, sb, reg, None)
            for k, w in want.items():
                got = {v[1] for v in tab[k] if v[0] == 'Sign'}
                if got == {w}:
                    rep.ok('R6.1', 'sign(Small %s)' % k, 'Sign::' + w)
                else:
                    rep.viol('R6.1', 'nint::NInt::sign|Small|%s' % k, 'sign of a %s machine-word integer yields %s, expected Sign::%s' % (k, sorted(got), w), sb.loc(min(reg)) if reg else None)
        elif 'nint::NInt::Big' in ps:
            cs = [c.target for c in sb.calls_in(reg)]
            if any(t.endswith('BigInt::sign') for t in cs):
                rep.ok('R6.1', 'sign(Big)', 'delegates to BigInt::sign')
            else:
                rep.viol('R6.1', 'nint::NInt::sign|Big', 'Big arm does not delegate to BigInt::sign (%s)' % cs, sb.loc(0))
    gfn = F.anchor('nint::NInt::signum')
    gb = F.body(gfn)
    gm = find_match(F, gfn, r'num::bigint::Sign', min_arms=3)
    wantc = {'Minus': '-1_i64', 'NoSign': '0_i64', 'Plus': '1_i64'}
    seen = set()
    for i, a in enumerate(gm['arms']):
        ps = pat_paths(a['pat'])
        reg = arm_region(F, gb, gm, i)
        cs = {o[2] for _bb, s in gb.aggregates(reg) if s[2][2] == 'nint::NInt' and s[2][4] == 'Small' for o in s[2][5] if o[0] == 'k'}
        for pth in ps:
            v = pth.rsplit('::', 1)[-1]
            seen.add(v)
            if cs == {wantc.get(v)}:
                rep.ok('R6.1', 'signum(Big %s)' % v, wantc[v])
            else:
                rep.viol('R6.1', 'nint::NInt::signum|Big|%s' % v, 'signum of a big-representation integer with Sign::%s yields %s, expected %s' % (v, sorted(cs), wantc.get(v)), gb.loc(min(reg)) if reg else None)
    if seen != set(wantc):
        rep.error('R6.1', 'signum: Sign arms found %s' % sorted(seen))
    gm2 = find_match(F, gfn, r'nint::NInt', min_arms=2)
    for i, a in enumerate(gm2['arms']):
        if 'nint::NInt::Small' in pat_paths(a['pat']):
            reg = arm_region(F, gb, gm2, i)
            if any(c.target.endswith('::signum') for c in gb.calls_in(reg)):
                rep.ok('R6.1', 'signum(Small)', 'i64::signum')
            else:
                rep.viol('R6.1', 'nint::NInt::signum|Small', 'Small arm does not use i64::signum', gb.loc(0))

    # ---------------- R6.2
    rep.rule('R6.2', 'every two-arm match {Small(a), Big(a)} in nint.rs applies the same operation in both arms '
             '(canonical operation names; comparisons with 0 = sign predicates), or is a reviewed idiom', exhaustive=True)
    idioms = {
        'nint::NInt::to_bigint': 'representation conversion: Small widens through BigInt::from, Big is borrowed as is',
        'nint::NInt::into_bigint': 'representation conversion',
        'nint::NInt::sign': 'decided by R6.1',
        'nint::NInt::signum': 'decided by R6.1',
        'nint::NInt::abs': 'checked fast path (checked_abs) with common BigInt fallback; decided by R6.A',
        '<nint::NInt as std::hash::Hash>::hash': 'decided by R6.5',
    }
    n2 = 0
    for fn in sorted(F.fns):
        if not in_nint(fn):
            continue
        for m in F.matches.get(fn, []):
            if m['kind'] != 'Normal' or len(m['arms']) not in (2, 3):
                continue
            pp = [strip_ref(a['pat']) for a in m['arms']]
            if not all(p.get('k') == 'ts' for p in pp):
                continue
            names = [p['p'] for p in pp]
            if sorted(set(names)) != ['nint::NInt::Big', 'nint::NInt::Small']:
                continue
            n2 += 1
            b = F.body(fn)
            so, bo = set(), set()
            for i_, nm_ in enumerate(names):
                ops_ = arm_ops(b, arm_region(F, b, m, i_))
                if nm_.endswith('Small'):
                    so |= ops_
                else:
                    bo |= ops_
            if fn in idioms:
                rep.ok('R6.2', fn, 'idiom: ' + idioms[fn])
            elif so == bo:
                rep.ok('R6.2', fn, 'both arms apply %s' % sorted(so))
            else:
                rep.viol('R6.2', fn + '|arms-differ', 'Small arm applies %s, Big arm applies %s: the result depends on the representation' % (sorted(so), sorted(bo)), b.loc(0))
    rep.floor('R6.2', 'two-arm representation matches', n2, 25)

    # ---------------- R6.3
    rep.rule('R6.3', 'operator impls: the Small x Small fast path is i64::checked_<op> (bit ops: the same trait on i64) and '
             'every BigInt operation is the impl\'s own trait item', exhaustive=True)
    checked = {'Add': 'checked_add', 'Sub': 'checked_sub', 'Mul': 'checked_mul', 'Div': 'checked_div', 'Rem': 'checked_rem'}
    bitops = {'BitAnd': 'bitand', 'BitOr': 'bitor', 'BitXor': 'bitxor'}
    n3 = 0
    for fn in sorted(F.fns):
        mm = re.match(r'^<&?nint::NInt as std::ops::(\w+)(<&?nint::NInt>)?>::(\w+)$', fn)
        if not mm or mm.group(1) not in list(checked) + list(bitops):
            continue
        tr = mm.group(1)
        b = F.body(fn)
        n3 += 1
        ok = True
        why = []
        for bb, s in b.aggregates():
            rv = s[2]
            if rv[2] != 'nint::NInt':
                continue
            os_ = origins(b, rv[5][0])
            calls = [o for o in os_ if o[0] == 'call']
            if rv[4] == 'Small':
                for o in os_:
                    if o[0] == 'call':
                        last = o[1].rsplit('::', 1)[-1]
                        if tr in checked and last == checked[tr]:
                            continue
                        if tr in bitops and o[2] == 'std::ops::' + tr and o[3] in ('i64', '&i64'):
                            continue
                        ok = False
                        why.append('Small built from %s' % o[1])
                    elif o[0] not in ('const',):
                        ok = False
                        why.append('Small built from %s' % (o,))
            elif rv[4] == 'Big':
                for o in calls:
                    if o[2] == 'std::ops::' + tr and 'BigInt' in o[3]:
                        continue
                    ok = False
                    why.append('Big built from %s (trait %s on %s)' % (o[1], o[2], o[3]))
                if not calls:
                    # nested match: origins may go through several arms; require at least one somewhere
                    pass
        big_calls = [c for c in b.calls if c.callee.get('tr') == 'std::ops::' + tr and 'BigInt' in (c.callee.get('g') or [''])[0]]
        if not big_calls:
            ok = False
            why.append('no BigInt %s call' % tr)
        # no unchecked machine arithmetic in these bodies
        for bb, t in b.asserts():
            if t[3].startswith('Overflow') or t[3].startswith('Division') or t[3].startswith('Remainder'):
                ok = False
                why.append('unchecked machine arithmetic (%s)' % t[3])
        if ok:
            rep.ok('R6.3', fn, 'checked fast path / same-trait BigInt fallback (%d BigInt call site(s))' % len(big_calls))
        else:
            rep.viol('R6.3', fn + '|pairing', '; '.join(sorted(set(why))), b.loc(0))
    rep.floor('R6.3', 'operator impls', n3, 32)

    # ---------------- R6.A
    rep.rule('R6.A', 'crate-wide: every NInt::Small(x) construction and every write into a Small payload takes x from a constant, '
             'an i64 parameter, an existing Small/IntLit64 payload, an overflow-detecting checked op, an exact conversion, '
             'i64::signum, or an overflow-free bit operation')
    good_calls = {'checked_add', 'checked_sub', 'checked_mul', 'checked_div', 'checked_rem', 'checked_neg', 'checked_abs',
                  'checked_pow', 'to_i64', 'signum', 'clone', 'try_from', 'try_into'}
    good_bit = {'std::ops::BitAnd', 'std::ops::BitOr', 'std::ops::BitXor', 'std::ops::Not'}
    exceptions = {
        ('nnum::NNum::u8', "cast:IntToInt:u8->i64"): 'u8 widened to i64 is lossless',
        ('<nint::NInt as std::ops::DivAssign<u32>>::div_assign', 'bin:Div'): 'divides the payload by a u32 widened to i64: the magnitude never grows, no overflow',
    }
    nA = 0

    def judge(b, op, where):
        bad = []
        for o in origins(b, op):
            k = o[0]
            if k == 'const':
                continue
            if k == 'payload' and o[1] in ('Small', 'IntLit64'):
                continue
            if k == 'param' and o[2] in ('i64', '&i64'):
                continue
            if k == 'call':
                last = o[1].rsplit('::', 1)[-1]
                if last in good_calls:
                    continue
                if o[2] in good_bit and o[3] in ('i64', '&i64'):
                    continue
                bad.append('call:%s' % o[1])
                continue
            if k == 'un' and o[1] == 'Not':
                continue
            if k == 'bin' and o[1] in ('BitAnd', 'BitOr', 'BitXor'):
                continue
            if k == 'cast':
                bad.append('cast:%s:%s' % (o[1], o[2]))
                continue
            bad.append('%s:%s' % (k, o[1] if len(o) > 1 else ''))
        return bad

    for b in F.all_bodies():
        for bb, s in b.aggregates():
            rv = s[2]
            if rv[2] == 'nint::NInt' and rv[4] == 'Small':
                nA += 1
                bad = [x for x in judge(b, rv[5][0], b.path) if (b.path, x) not in exceptions]
                if bad:
                    rep.viol('R6.A', '%s|%s' % (b.path, ','.join(sorted(set(bad)))),
                             'NInt::Small is built from %s: a machine word that may have overflowed / been truncated becomes an integer value' % sorted(set(bad)), b.loc(bb))
                else:
                    rep.ok('R6.A', '%s: NInt::Small(..)' % b.path, 'sound origin')
        # writes through a &mut i64 that points into a Small payload, or directly into the payload field
        for i in b.reach:
            for s in b.stmts(i):
                if s[0] != 'a':
                    continue
                dst = s[1]
                into_payload = any(isinstance(p, str) and p.startswith('v0:Small') for p in dst[1:])
                if not into_payload and len(dst) == 2 and dst[1] == '*' and 'i64' in b.locals[dst[0]] and '&mut' in b.locals[dst[0]]:
                    into_payload = any(o[0] == 'payload' and o[1] == 'Small' for o in origins(b, ['c', [dst[0]]]))
                if not into_payload:
                    continue
                nA += 1
                rv = s[2]
                lab = None
                if rv[0] == 'bin':
                    lab = 'bin:' + rv[1]
                    okb = rv[1] in ('BitAnd', 'BitOr', 'BitXor')
                elif rv[0] == 'use':
                    bad = judge(b, rv[1], b.path)
                    okb = not bad
                    lab = ','.join(bad) or 'use'
                else:
                    okb = False
                    lab = rv[0]
                if okb or (b.path, lab) in exceptions:
                    rep.ok('R6.A', '%s: write into Small payload (%s)' % (b.path, lab), exceptions.get((b.path, lab), 'sound origin'))
                else:
                    rep.viol('R6.A', '%s|payload-write|%s' % (b.path, lab), 'in-place write into an NInt::Small payload from %s' % lab, b.loc(i))
    rep.floor('R6.A', 'Small constructions / payload writes', nA, 60)

    # ---------------- R6.4
    rep.rule('R6.4', 'no function outside nint.rs branches on NInt::Small / NInt::Big except the is_big builtin')
    allowed_outside = 1
    found = []
    for fn, ms in F.matches.items():
        if in_nint(fn):
            continue
        for m in ms:
            for a in m['arms']:
                if any(p.startswith('nint::NInt::') for p in pat_paths(a['pat'])):
                    found.append((fn, pat_str(a['pat'])))
    reg = Registry(F)
    is_big_body = None
    try:
        is_big_body = reg.body_of('is_big')
    except CheckError:
        pass
    for fn, p in found:
        if fn == is_big_body:
            rep.ok('R6.4', fn, 'the is_big builtin: reports the representation by design')
        else:
            rep.viol('R6.4', fn + '|repr-match', 'function outside nint.rs matches on the integer representation (%s)' % p, F.body(fn).loc(0) if F.has_fn(fn) else None)
    rep.ok('R6.4', 'crate-wide scan', '%d function(s) outside nint.rs mention the representation in a pattern' % len(found))

    # ---------------- R6.5
    rep.rule('R6.5', 'PartialEq has all four representation arms with exact mixed comparison; Ord falls back to BigInt for mixed '
             'pairs; Hash writes a Big value that fits a machine word through the same sink as a Small one')
    eq = F.anchor('<nint::NInt as std::cmp::PartialEq>::eq')
    eb = F.body(eq)
    em = find_match(F, eq, r'nint::NInt', min_arms=2)
    combos = set()
    for a in em['arms']:
        p = strip_ref(a['pat'])
        if p.get('k') == 'tuple':
            combos.add(tuple(x.rsplit('::', 1)[-1] for x in pat_paths(p)))
    if combos >= {('Small', 'Small'), ('Small', 'Big'), ('Big', 'Small'), ('Big', 'Big')}:
        rep.ok('R6.5', 'PartialEq arms', sorted(combos))
    else:
        rep.viol('R6.5', eq + '|arms', 'PartialEq for NInt lacks a representation combination: %s' % sorted(combos), eb.loc(0))
    mixed_ok = True
    for i_, a_ in enumerate(em['arms']):
        p_ = strip_ref(a_['pat'])
        if p_.get('k') == 'tuple' and tuple(x.rsplit('::', 1)[-1] for x in pat_paths(p_)) in (('Small', 'Big'), ('Big', 'Small')):
            reg_ = arm_region(F, eb, em, i_)
            conv = [c for c in eb.calls_in(reg_) if c.target.endswith('::to_i64') or c.target.endswith('to_bigint')]
            conv += [c for cl in F.closures_of(eq) for c in F.body(cl).calls if c.target.endswith('::to_i64') or c.target.endswith('to_bigint')]
            if not conv:
                mixed_ok = False
    if mixed_ok:
        rep.ok('R6.5', 'PartialEq mixed arms', 'exact conversion (to_i64/to_bigint) before comparing')
    else:
        rep.viol('R6.5', eq + '|mixed', 'mixed-representation equality does not convert exactly', eb.loc(0))
    for nm in ('<nint::NInt as std::cmp::Ord>::cmp', '<nint::NInt as std::cmp::PartialOrd>::partial_cmp'):
        ob = F.body(F.anchor(nm))
        tb = [c for c in ob.calls if c.target.endswith('NInt::to_bigint')]
        if len(tb) >= 2:
            rep.ok('R6.5', nm, 'mixed pairs compared as BigInt')
        else:
            rep.viol('R6.5', nm + '|mixed', 'mixed-representation ordering does not go through to_bigint on both sides', ob.loc(0))
    hfn = F.anchor('<nint::NInt as std::hash::Hash>::hash')
    hb = F.body(hfn)
    hm = find_match(F, hfn, r'nint::NInt', min_arms=2)
    sinks = {}
    for i, a in enumerate(hm['arms']):
        nm = pat_paths(a['pat'])[0].rsplit('::', 1)[-1]
        sinks[nm] = [c for c in hb.calls_in(arm_region(F, hb, hm, i))]
    small_sink = {c.target for c in sinks.get('Small', []) if 'Hasher' in c.target or c.target.endswith('::hash')}
    big = sinks.get('Big', [])
    toi = [c for c in big if c.target.endswith('::to_i64')]
    big_small_sink = [c for c in big if c.target in small_sink]
    if small_sink and toi and big_small_sink:
        # the shared sink must be on the Some branch of to_i64
        hm2 = find_match(F, hfn, r'Option<i64>', min_arms=2)
        okh = False
        for i, a in enumerate(hm2['arms']):
            if any(p.endswith('::Some') for p in pat_paths(a['pat'])):
                if any(c.target in small_sink for c in hb.calls_in(arm_region(F, hb, hm2, i))):
                    okh = True
        if okh:
            rep.ok('R6.5', 'Hash', 'Big hashed through %s when to_i64() is Some' % sorted(small_sink))
        else:
            rep.viol('R6.5', hfn + '|sink', 'Big arm does not use the Small sink on the to_i64()==Some branch', hb.loc(0))
    else:
        rep.viol('R6.5', hfn + '|sink', 'Hash for NInt: a small value in Big representation is not hashed like its Small twin', hb.loc(0))

    # ---------------- R6.6
    rep.rule('R6.6', 'registered builtins %, //, %%, /! and the * pattern test the divisor with is_nonzero/is_zero and cannot '
             'reach the division on the zero branch')
    for nm in ('//', '%%', '/!', '%'):
        try:
            bp = reg.body_of(nm)
        except CheckError as e:
            rep.error('R6.6', str(e))
            continue
        b = F.body(bp)
        divs = [c for c in b.calls if c.target.rsplit('::', 1)[-1] in ('div_floor', 'mod_floor', 'rem', 'div', 'div_rem', 'div_mod_floor')
                and not c.target.endswith('NErr::div')]
        gs = [c for c in b.calls if c.target.rsplit('::', 1)[-1] in ('is_nonzero', 'is_zero')]
        if not divs:
            rep.error('R6.6', 'builtin %s: no division call found' % nm)
            continue
        if not gs:
            rep.viol('R6.6', 'builtin|%s|unguarded' % nm, 'builtin %s divides without testing the divisor for zero' % nm, divs[0].loc())
            continue
        g = gs[0]
        # the guard must test the second parameter (the divisor)
        prm = {o[1] for o in origins(b, g.args[0]) if o[0] == 'param'}
        want_true = g.target.endswith('is_nonzero')
        ok, why = only_when(b, g, [d.bb for d in divs], want=want_true)
        if ok and prm and all(x in ('b', '_2') for x in prm):
            rep.ok('R6.6', 'builtin %s' % nm, 'division unreachable when the divisor is zero')
        else:
            rep.viol('R6.6', 'builtin|%s|guard' % nm, 'zero-divisor guard of %s does not protect the division (%s; tested operand %s)' % (nm, why, sorted(prm)), g.loc())
        if nm == '%':
            # the guard arm must cover (Int|Rational) x (Int|Rational)
            ms = [m for m in F.matches.get(bp, []) if m['kind'] == 'Normal']
            cov = False
            for m in ms:
                for a in m['arms']:
                    if a['guard']:
                        ps = set(x.rsplit('::', 1)[-1] for x in pat_paths(a['pat']))
                        if {'Int', 'Rational'} <= ps and not ({'Float', 'Complex'} & ps):
                            cov = True
            if cov:
                rep.ok('R6.6', 'builtin % guard coverage', 'guard arm covers exactly the exact levels (Int|Rational)^2')
            else:
                rep.viol('R6.6', 'builtin|%|coverage', 'the zero test of % does not cover all exact operand levels', b.loc(0))
    td = '<Times as core::Builtin>::destructure'
    if F.has_fn(td):
        b = F.body(td)
        rems = [c for c in b.calls if c.callee.get('tr') == 'std::ops::Rem']
        gs = [c for c in b.calls if c.target.endswith('is_nonzero')]
        okc = 0
        for r in rems:
            guards = [g for g in gs if b.dominates(g.bb, r.bb) and only_when(b, g, [r.bb], want=True)[0]]
            if guards:
                okc += 1
                rep.ok('R6.6', '* pattern remainder', 'dominated by is_nonzero(divisor)')
            else:
                rep.viol('R6.6', td + '|unguarded-rem', 'the * pattern computes r % a without testing a for zero', r.loc())
        rep.floor('R6.6', '* pattern remainders', len(rems), 2)
    else:
        rep.error('R6.6', 'Times::destructure missing')

    # ---------------- R6.7
    rep.rule('R6.7', 'div_floor, mod_floor, gcd, lcm, sqrt, pow on NInt convert every operand with to_bigint and delegate to the '
             'same-named num operation (no machine-word shortcut)')
    for nm, dele in (('div_floor', 'div_floor'), ('mod_floor', 'mod_floor'), ('gcd', 'gcd'), ('lcm', 'lcm'), ('sqrt', 'sqrt'), ('pow', 'pow')):
        fn = 'nint::NInt::' + nm
        if not F.has_fn(fn):
            rep.error('R6.7', 'missing ' + fn)
            continue
        b = F.body(fn)
        nparams = sum(1 for t in F.fns[fn]['inputs'] if 'nint::NInt' in t)
        tb = [c for c in b.calls if c.target.endswith('NInt::to_bigint')]
        dl = [c for c in b.calls if c.target.rsplit('::', 1)[-1] == dele and not c.target.startswith('nint::')]
        mach = [t[3] for _bb, t in b.asserts()] + [c.target for c in b.calls if re.search(r'(checked_|wrapping_|overflowing_)', c.target)]
        smalls = [1 for _bb, s in b.aggregates() if s[2][2] == 'nint::NInt' and s[2][4] == 'Small']
        if len(tb) >= nparams and dl and not mach and not smalls:
            rep.ok('R6.7', fn, 'to_bigint x%d then %s' % (len(tb), dl[0].target))
        else:
            rep.viol('R6.7', fn + '|delegate', '%s no longer delegates to num\'s %s over BigInt on every path (to_bigint calls %d/%d, delegate calls %d, machine arithmetic %s, Small results %d)'
                     % (fn, dele, len(tb), nparams, len(dl), mach, len(smalls)), b.loc(0))
    for fn in ('<nint::NInt as std::ops::Shl<usize>>::shl', '<nint::NInt as std::ops::Shr<usize>>::shr'):
        if not F.has_fn(fn):
            rep.error('R6.7', 'missing ' + fn)
            continue
        b = F.body(fn)
        tr = 'std::ops::Shl' if 'Shl' in fn else 'std::ops::Shr'
        big = [c for c in b.calls if c.callee.get('tr') == tr and 'BigInt' in (c.callee.get('g') or [''])[0]]
        other = [c.target for c in b.calls if re.search(r'(checked_|wrapping_|overflowing_|unchecked_)sh', c.target)]
        shifts = [s for i in b.reach for s in b.stmts(i) if s[0] == 'a' and s[2][0] == 'bin' and s[2][1] in ('Shl', 'Shr', 'ShlUnchecked', 'ShrUnchecked')]
        if big and not other and not shifts:
            rep.ok('R6.7', fn, 'shifts the BigInt')
        else:
            rep.viol('R6.7', fn + '|machine-shift', 'shift has a machine-word path (%s %s): bits shifted out of an i64 are lost silently' % (other, ['bin ' + s[2][1] for s in shifts]), b.loc(0))
    # gcd / lcm at the NNum level delegate to the NInt implementations (sign normalisation, BigInt arithmetic live there)
    for nm_ in ('gcd', 'lcm'):
        fn_ = 'nnum::NNum::' + nm_
        if not F.has_fn(fn_):
            continue
        if any(c.target == 'nint::NInt::' + nm_ for c in family_calls(F, fn_)):
            rep.ok('R6.7', 'NNum::%s' % nm_, 'delegates to NInt::%s' % nm_)
        else:
            rep.viol('R6.7', '%s|reimplemented' % fn_, 'NNum::%s no longer delegates to NInt::%s: a second implementation of the integer %s (sign of the result, zero operands, big operands) that can disagree with the first' % (nm_, nm_, nm_), F.body(fn_).loc(0))
    # ---------------- R6.9
    rep.rule('R6.9', 'the big fallback of every binary operator impl on NInt keeps the operand roles: the left operand of the BigInt-level '
             'operation comes from self, the right one from the other parameter (parameter-source dataflow, field-sensitive through '
             '`match (self, other)`) - for - / // % & the exchanged form is wrong exactly off the machine-word fast path', exhaustive=True)
    n69 = 0
    for p_ in sorted(F.bodies_raw):
        m_ = re.match(r'^<&?nint::NInt as std::ops::(Sub|Div|Rem|Add|Mul|BitAnd|BitOr|BitXor)(<.*>)?>::(\w+)$', p_)
        if not m_:
            continue
        b_ = F.body(p_)
        for c in b_.calls:
            if c.callee.get('tr') == 'std::ops::' + m_.group(1) and 'BigInt' in c.target and len(c.args) >= 2:
                n69 += 1
                l_, r_ = param_sources(b_, c.args[0]), param_sources(b_, c.args[1])
                if l_ == {1} and r_ == {2}:
                    rep.ok('R6.9', '%s big %s' % (p_, m_.group(1)), 'self op other')
                else:
                    rep.viol('R6.9', '%s|operand-roles' % p_, 'the BigInt fallback of %s computes with operands from parameters %s and %s (expected self, other): `a - b`, `a // b`, `a %% b` are reversed as soon as a value leaves the i64 range' % (p_, sorted(l_), sorted(r_)), c.loc())
    rep.floor('R6.9', 'BigInt-level operations in the NInt operator impls', n69, 40)
    # ---------------- R6.8
    rep.rule('R6.8', 'the truncating remainder (Rem on NNum / NInt / BigInt / signed machine integers: sign follows the dividend) is used outside '
             'the operator implementations only at reviewed sites where the sign cannot matter; everything else in the library that means '
             '"modulo" goes through mod_floor (parity, divisibility and digit extraction on negative numbers)')
    from .census import Census
    C6 = Census(F)
    REM_TABLE = [
        (r'^<Times as core::Builtin>::destructure$', 2, 'only tested for zero (divisibility)'),
        (r'^builtin\(str_radix\)$', 1, 'digit extraction on the magnitude: the sign was split off before the loop'),
        (r'^builtin\(%\)$', 1, 'this is the % operator itself'),
        (r'^nint::NInt::lazy_is_prime$', 4, 'only tested for zero, on candidates >= 2'),
        (r'^nnum::lazy_factorize(::\{closure#\d+\})?$', 1, 'only tested for zero'),
        (r'^<streams::Cycle as core::Stream>::pythonic_index_isize$', 1, 'applied to cursor + rem_euclid(n): both non-negative'),
    ]
    perr = {}
    nrem = 0
    for p_ in sorted(F.bodies_raw):
        if '::promoted' in p_:
            continue
        b_ = F.body(p_)
        fk = C6.fn_key(p_)
        if re.search(r'as std::ops::(Rem|RemAssign)', p_):
            continue            # the operator layers themselves (R6.1-R6.3, R7.x decide those)
        for c in b_.calls:
            if (c.callee.get('tr') in ('std::ops::Rem', 'std::ops::RemAssign') or re.search(r'::rem(_assign)?$', c.target)) and \
                    re.search(r'nnum::NNum|nint::NInt|num::BigInt|BigInt', c.target):
                nrem += 1
                perr.setdefault(fk, []).append(c.loc())
        for bb in b_.reach:
            for s_ in b_.stmts(bb):
                if s_[0] == 'a' and s_[2][0] == 'bin' and s_[2][1] == 'Rem':
                    o = s_[2][2]
                    ty = b_.locals[o[1][0]] if o[0] in ('c', 'm') and len(o[1]) == 1 else (o[3] if o[0] == 'k' else '?')
                    if str(ty).startswith('i'):
                        nrem += 1
                        perr.setdefault(fk, []).append(b_.loc(bb))
    paths6 = {C6.fn_key(p_): p_ for p_ in F.bodies_raw if '::promoted' not in p_}
    used6 = {}

    def spare6(g):
        gk = C6.fn_key(g)
        e_ = [e for e in REM_TABLE if re.search(e[0], gk)]
        if not e_:
            return None
        return e_[0][1] - len(perr.get(gk, [])) - used6.get(gk, 0)
    for fk, locs in sorted(perr.items()):
        ent = [e for e in REM_TABLE if re.search(e[0], fk)]
        if ent and len(locs) <= ent[0][1]:
            rep.ok('R6.8', '%s x%d' % (fk, len(locs)), 'reviewed: ' + ent[0][2])
        elif not ent and fk in paths6 and C6.moved_from_reviewed(paths6[fk], len(locs), spare6):
            for g in C6.moved_from_reviewed(paths6[fk], len(locs), spare6):
                used6[C6.fn_key(g)] = used6.get(C6.fn_key(g), 0) + len(locs)
            rep.ok('R6.8', '%s x%d (moved)' % (fk, len(locs)), 'helper reached only from reviewed functions that lost at least as many remainder sites')
        else:
            rep.viol('R6.8', '%s|truncating-rem' % fk, '%s uses the truncating remainder %d time(s) (%d reviewed): for a negative dividend the result is negative or zero, so tests like `x %% 2 == 1` and digit extraction are wrong exactly on negative numbers; the library\'s modulo is mod_floor' % (fk, len(locs), ent[0][1] if ent else 0), locs[-1])
    rep.floor('R6.8', 'truncating remainder sites outside the operator layers', nrem, 8)
    rep.undecided += ['exactness of BigInt arithmetic, Pow, gcd, sqrt, shifts (num-bigint)', 'lazy_is_prime / lazy_factorize correctness',
                      'floor/truncate identities as equations']
    return META


def _place_ty(b, place):
    return b.locals[place[0]] if place[0] < len(b.locals) else ''
