"""C01 - value semantics: side conditions under which Rust's type system proves that mutation never leaks through an alias."""
import os
import re
import shutil
import subprocess
import tempfile
from .core import (CheckError, find_match, arm_region, pat_str, strip_ref, origins, only_when, pat_paths,
                   Registry, op_local, Facts)
from .opassign import order_rule

META = {
    'level': 'proof',
    'explanation': (
        'Proof, relative to the soundness of safe Rust, of the aliasing clauses of C01 (a mutation is never visible through another '
        'holder of the same payload; calling a function on a value leaves the variable unchanged). Every collection payload is an '
        'Rc<Vec|String|HashMap|dyn Stream> inside Seq; from an Rc<T> safe code reaches &mut T only through Rc::make_mut (clones when '
        'shared) or Rc::get_mut (fails when shared). A shared payload can therefore only be observed to change if (i) unsafe code forges '
        'a reference, (ii) a payload type contains interior mutability, or (iii) two names denote one variable cell. The obligations '
        'discharged here are exactly those side conditions: (R1.1) no user-written unsafe in the crate (with a positive control crate '
        'that must produce 4 hits); (R1.2) every interior-mutability edge reachable from Obj through all ADT fields and all implementors '
        'of the stream/builtin trait objects is one of the reviewed environment/memo edges; (R1.3) a variable cell is a Box<RefCell<Obj>> '
        'owned by exactly one map entry; (R1.4) only the evaluator writes variable cells: no builtin, registered closure or stream method '
        'calls a cell writer, and builtins receive Obj by value; (R1.5, thorough) compile-fail witnesses with compiling twins; plus the '
        'ordering clauses (R1.6) op-assign reads the old value before evaluating its right-hand side and (R1.7) swap reads both slots '
        'before writing either. Which slot a type-correct mutation addresses (clause c) is not decided.'),
    'trusted_base': ['soundness of safe Rust and of std::rc::Rc / RefCell', 'rustc nightly HIR/MIR and type information',
                     'num-*, regex, chrono values carry no interior mutability observable through Obj (foreign ADTs are leaves)'],
    'assumptions': ['clause (c): the addressed slot and the value written are value clauses, not decided'],
}

IM = re.compile(r'^adt:(std|core)::(cell::(RefCell|Cell|UnsafeCell|OnceCell|LazyCell)|sync::(Mutex|RwLock|OnceLock|LazyLock|Condvar|atomic::\w+|mpsc::\w+)|lazy_static::.*)$')
DERIVES = {'Clone', 'Copy', 'Debug', 'PartialEq', 'Eq', 'PartialOrd', 'Ord', 'Hash', 'Default'}


def user_unsafe(F):
    out = []
    for u in F.unsafe:
        if u['src'] != 'UserProvided':
            continue
        sp = F.spans[u['sp']]
        if u['kind'] == 'impl' and u['expn'] and sp[7] in DERIVES:
            continue   # `unsafe impl TrivialClone` emitted by #[derive(Clone)]
        out.append(u)
    return out


def run(F, rep, tier):
    # ---------------- R1.1
    rep.rule('R1.1', 'no user-written unsafe block / fn / impl / extern in the crate; positive control: the fixture crate must yield 4 hits')
    uu = user_unsafe(F)
    for u in uu:
        rep.viol('R1.1', '%s|unsafe-%s' % (u['fn'], u['kind']), 'unsafe %s in %s: the aliasing argument for Rc payloads no longer rests on safe Rust alone' % (u['kind'], u['fn']), F.loc(u['sp']))
    if not uu:
        rep.ok('R1.1', 'crate noulith', '0 user-written unsafe constructs among %d unsafe facts (all compiler-generated format/derive expansions)' % len(F.unsafe))
    fx = os.path.join(getattr(F, 'verif_dir', os.path.dirname(os.path.dirname(os.path.abspath(__file__)))), 'fixtures', 'unsafe_pos')
    if hasattr(F, 'ensure_facts'):
        try:
            fp, _c = F.ensure_facts(fx, crate='unsafe_pos')
            FX = Facts(fp)
            hits = sorted(u['kind'] for u in user_unsafe(FX))
            if hits == ['block', 'extern', 'fn', 'impl']:
                rep.ok('R1.1', 'positive control fixtures/unsafe_pos', 'reports %s; its derive/format expansions are filtered' % hits)
            else:
                rep.error('R1.1', 'positive control: expected block, extern, fn, impl; got %s' % hits)
        except SystemExit as e:
            rep.error('R1.1', 'positive control could not be analysed: %s' % e)
    else:
        rep.error('R1.1', 'positive control unavailable (no fact extractor handle)')

    # ---------------- R1.2
    rep.rule('R1.2', 'interior mutability reachable from Obj (through every ADT field, and through every local implementor of dyn Stream / '
             'dyn Builtin / dyn Catamorphism) occurs only on the reviewed edges: environment handles Rc<RefCell<Env>>, the memo table of '
             'Func::Memoized, and inside Env itself')
    impls_of = {}
    for i in F.impls:
        if i['trait']:
            impls_of.setdefault(i['trait'], []).append(i)
    seen = set()
    st = ['core::Obj']
    edges = []
    while st:
        a = st.pop()
        if a in seen:
            continue
        seen.add(a)
        adt = F.adts.get(a)
        if not adt:
            continue
        for v in adt['variants']:
            for f in v['fields']:
                ty = f['ty']
                is_fnptr = ty.startswith('for<') or ty.startswith('fn(') or ty.startswith('unsafe fn(')
                for m in f['mentions']:
                    if IM.match(m) and not is_fnptr:
                        edges.append((a, v['name'], f['name'], m, ty))
                    if m.startswith('adt:') and m[4:] in F.adts and not is_fnptr:
                        st.append(m[4:])
                    if m.startswith('dyn:'):
                        for imp in impls_of.get(m[4:], []):
                            for mm in imp['self_mentions']:
                                if mm.startswith('adt:') and mm[4:] in F.adts:
                                    st.append(mm[4:])
                    if m == 'rawptr':
                        edges.append((a, v['name'], f['name'], 'rawptr', ty))
    rep.extra['types_reachable_from_Obj'] = len(seen)
    RENV = 'std::rc::Rc<std::cell::RefCell<core::Env>>'
    allowed = {
        ('core::Closure', 'env'): 'closures capture variables: the defining environment handle',
        ('core::ObjType', '0'): 'satisfying-types carry the environment their predicate runs in',
        ('core::Func', '1'): 'memo table of Func::Memoized (a cache keyed by arguments, not a collection value)',
        ('core::Env', 'vars'): 'the variable cells themselves',
        ('core::Env', 'parent'): 'scope chain',
        ('streams::Iterate', '0'): 'lazy stream holding the environment handle for its function',
        ('streams::MappedStream', '0'): 'lazy stream holding the environment handle',
        ('streams::ZippedStream', '0'): 'lazy stream holding the environment handle',
        ('streams::FilteredStream', '0'): 'lazy stream holding the environment handle',
    }
    found_allowed = set()
    for (a, v, f, m, ty) in edges:
        key = (a, f)
        stripped = ty.replace(RENV, '')
        only_env = not re.search(r'(RefCell|Cell<|Mutex|RwLock|Atomic|OnceCell|LazyLock|OnceLock)', stripped)
        if key in allowed and (only_env or a in ('core::Env', 'core::Func')):
            found_allowed.add(key)
            rep.ok('R1.2', '%s::%s.%s' % (a, v, f), 'reviewed: ' + allowed[key])
        else:
            rep.viol('R1.2', '%s|%s|%s|interior-mutability' % (a, v, f), 'a value reachable from Obj contains interior mutability outside the reviewed environment/memo edges: %s::%s.%s : %s - two holders of the same Rc could observe each other\'s writes' % (a, v, f, ty[:120]), F.loc(F.adts[a]['sp']))
    for key in (('core::Closure', 'env'), ('core::Env', 'vars'), ('core::Env', 'parent')):
        if key not in found_allowed:
            rep.error('R1.2', 'reviewed edge %s.%s no longer exists (anchor vanished)' % key)
    # payload types of Seq are Rc of plain containers
    seq = F.adts.get('core::Seq')
    if seq:
        for v in seq['variants']:
            t0 = v['fields'][0]['ty']
            if re.match(r'^std::(rc::Rc|sync::Arc)<', t0) and not IM.search('adt:' + t0.split('<', 1)[1]) and 'Cell' not in t0:
                rep.ok('R1.2', 'Seq::%s payload' % v['name'], t0[:80])
            else:
                rep.viol('R1.2', 'core::Seq|%s|payload-type' % v['name'], 'the payload of Seq::%s is %s, not an Rc of a plain container' % (v['name'], t0[:100]), F.loc(seq['sp']))
    else:
        rep.error('R1.2', 'core::Seq missing')

    # ---------------- R1.3
    rep.rule('R1.3', 'Env.vars maps a name to (ObjType, Box<RefCell<Obj>>): the cell is owned by one map entry, not reference counted')
    env = F.adts.get('core::Env')
    vt = [f['ty'] for f in env['variants'][0]['fields'] if f['name'] == 'vars'] if env else []
    if vt and 'std::boxed::Box<std::cell::RefCell<core::Obj>>' in vt[0] and 'Rc<std::cell::RefCell<core::Obj>>' not in vt[0] and 'Arc<' not in vt[0]:
        rep.ok('R1.3', 'Env.vars', vt[0][:110])
    else:
        rep.viol('R1.3', 'core::Env|vars|cell-ownership', 'variable cells are no longer uniquely owned Box<RefCell<Obj>> (%s): two names could share a cell' % vt, None)

    # ---------------- R1.4
    rep.rule('R1.4', 'only the evaluator writes variable cells: direct callers of Env::insert / modify_existing_var / modify_ident / modify_peek / '
             'try_borrow_set_peek are the reviewed evaluator functions and Env\'s own registration helpers; no impl Builtin / Stream / Iterator '
             'method and no closure registered in initialize is among them; Builtin::run* and Func::run* take Obj by value')
    W = ['core::Env::insert', 'core::Env::modify_existing_var', 'core::Env::modify_ident', 'core::Env::modify_peek', 'core::Env::try_borrow_set_peek']
    for w in W:
        if not F.has_fn(w):
            rep.error('R1.4', 'cell writer %s missing' % w)
    ok_callers = re.compile(r'^(core::Env::\w+|eval::(evaluate|insert_declare|assign_respecting_type|assign|assign_every|drop_lhs|modify_every)|initialize)$')
    reg = Registry(F)
    ncall = 0
    for b in F.all_bodies():
        for c in b.calls:
            if c.target not in W:
                continue
            ncall += 1
            owner = b.path
            while owner in F.closure_parent:
                owner = F.closure_parent[owner]
            frec = F.fns.get(owner, {})
            in_builtin = frec.get('impl_trait') in ('core::Builtin', 'core::Stream', 'std::iter::Iterator', 'core::Catamorphism')
            registered = b.path != owner and owner == reg.init
            if in_builtin or registered or not ok_callers.match(owner):
                rep.viol('R1.4', '%s|writes-cell|%s' % (b.path, c.target.rsplit('::', 1)[-1]), '%s calls %s: a function outside the evaluator writes a variable cell (calling a function on a value could change the variable)' % (b.path, c.target), c.loc())
            else:
                rep.ok('R1.4', '%s -> %s' % (b.path, c.target.rsplit('::', 1)[-1]), 'evaluator / registration code')
    rep.floor('R1.4', 'cell-writer call sites', ncall, 15)
    for tr, meths in (('core::Builtin', ('run', 'run1', 'run2')),):
        t = F.traits.get(tr)
        for n, p, _d in (t['items'] if t else []):
            if n in meths and p in F.fns:
                ins = F.fns[p]['inputs']
                if all(not (x.startswith('&') and 'core::Obj' in x and 'Rc<std::cell::RefCell<core::Env>>' not in x) for x in ins[2:]):
                    rep.ok('R1.4', '%s::%s signature' % (tr, n), 'arguments by value: %s' % ins[2:])
                else:
                    rep.viol('R1.4', '%s::%s|by-ref' % (tr, n), 'builtins receive arguments by reference: %s' % ins, None)
    # variable reads clone the handle
    gv = 'core::Env::try_borrow_get_var'
    if F.has_fn(gv):
        b = F.body(gv)
        if any(c.target == '<core::Obj as std::clone::Clone>::clone' for c in b.calls):
            rep.ok('R1.4', gv, 'reading a variable clones the handle (the variable keeps its reference)')
        else:
            rep.viol('R1.4', gv + '|no-clone', 'reading a variable no longer clones the handle', b.loc(0))

    # ---------------- R1.6 / R1.7
    rep.rule('R1.6', 'Expr::OpAssign: the old value is read before the right-hand side is evaluated, the slot is dropped after it and before '
             'run2(old, rhs)')
    try:
        oa = order_rule(F, rep, 'R1.6')
    except CheckError as e:
        rep.error('R1.6', str(e))
        oa = None
    rep.rule('R1.7', 'Expr::Swap: both slots are read (eval_lvalue_as_obj) before either is written (assign / drop_lhs), and each slot receives '
             'the value read from the other')
    evaluate = F.anchor('eval::evaluate')
    eb = F.body(evaluate)
    me = find_match(F, evaluate, r'core::Expr\b', min_arms=30)
    sw = None
    for i, a in enumerate(me['arms']):
        if any(p == 'core::Expr::Swap' for p in pat_paths(a['pat'])):
            sw = i
    if sw is None:
        rep.error('R1.7', 'Expr::Swap arm missing')
    else:
        regn = arm_region(F, eb, me, sw)
        cs = eb.calls_in(regn)
        reads = [c for c in cs if c.target == 'eval::eval_lvalue_as_obj']
        writes = [c for c in cs if c.target in ('eval::assign', 'eval::drop_lhs', 'eval::assign_every', 'eval::set_index')]
        lvs = [c for c in cs if c.target == 'eval::eval_lvalue']
        if len(reads) == 2 and len(lvs) == 2 and len([w for w in writes if w.target == 'eval::assign']) == 2:
            early = [w for w in writes if not all(eb.dominates(r.bb, w.bb) for r in reads)]
            if early:
                rep.viol('R1.7', evaluate + '|Swap|write-before-read', 'swap writes (or nulls) a slot before both slots have been read: `swap x[i], x[j]` with i == j loses the value', early[0].loc())
            else:
                # cross wiring: assign(lvalue A, value read from B)
                okx = True
                for w in [w for w in writes if w.target == 'eval::assign']:
                    lv = {r[2] for r in eb.roots(w.args[1]) if r[0] == 'call' and r[1] == 'eval::eval_lvalue'}
                    val_read = [r[2] for r in eb.roots(w.args[3]) if r[0] == 'call' and r[1] == 'eval::eval_lvalue_as_obj']
                    for rb in val_read:
                        rd = [c for c in reads if c.bb == rb][0]
                        src_lv = {r[2] for r in eb.roots(rd.args[1]) if r[0] == 'call' and r[1] == 'eval::eval_lvalue'}
                        if src_lv == lv:
                            okx = False
                if okx:
                    rep.ok('R1.7', 'Expr::Swap', 'read a, read b, then assign(a, b-value), assign(b, a-value)')
                else:
                    rep.viol('R1.7', evaluate + '|Swap|wiring', 'swap assigns a slot its own old value', eb.loc(min(regn)))
        else:
            rep.viol('R1.7', evaluate + '|Swap|shape', 'swap is no longer two reads followed by two assigns (%d reads, %d writes)' % (len(reads), len(writes)), eb.loc(min(regn)) if regn else None)

    # ---------------- R1.8
    rep.rule('R1.8', 'no user code runs while a variable cell is mutably borrowed: the closures handed to Env::modify_ident / '
             'modify_existing_var / modify_peek cannot reach Func::run*, evaluate or an indirect (FnMut) call, except through is_type '
             '(satisfying-types, documented); so a partially completed update is never observable and the cell is never re-entered')
    from .core import CallGraph
    cg = CallGraph(F)
    evalset = {evaluate} | {p for p in F.fns if re.search(r'impl core::Func>::run', p)}
    n8 = 0
    for b in F.all_bodies():
        for c in b.calls:
            if c.target not in ('core::Env::modify_ident', 'core::Env::modify_existing_var', 'core::Env::modify_peek'):
                continue
            if b.path.startswith('core::Env::'):
                continue
            clos = None
            for a in c.args:
                for r in b.roots(a):
                    if r[0] == 'agg' and r[1] == 'closure':
                        clos = r[2]
            if clos is None:
                continue
            n8 += 1
            # reachability from the closure, not passing through is_type
            seen = set()
            st = [clos]
            hit = None
            while st and hit is None:
                x = st.pop()
                if x in seen or x == 'eval::is_type':
                    continue
                seen.add(x)
                if x in evalset:
                    hit = x
                    break
                if F.has_fn(x):
                    bx = F.body(x)
                    # calls through fn pointers (builtin bodies) or dyn Fn objects may be user code; calls of a generic
                    # `impl FnOnce` parameter are whatever closure the caller passed, which is traversed as a mentioned value
                    harmful = False
                    for cc in bx.calls:
                        if cc.is_indirect and re.match(r'^(for<|fn\(|unsafe fn|&?dyn )', cc.callee.get('pty', '')):
                            harmful = True
                        if (cc.callee.get('tr') or '').startswith('std::ops::Fn') and 'dyn ' in (cc.callee.get('g') or [''])[0]:
                            harmful = True
                        if cc.callee.get('rk') == 'virtual' and (cc.callee.get('tr') in ('core::Builtin', 'core::Catamorphism')):
                            harmful = True
                        # a closure that calls a generic `impl Fn*` it captured from its enclosing function's parameters runs
                        # code supplied by that function's caller (e.g. the operator of an op-assign)
                        if (cc.callee.get('tr') or '').startswith('std::ops::Fn') and '{closure' in x and \
                                re.match(r'^(impl Fn|[A-Z]\w*$)', (cc.callee.get('g') or [''])[0]) and \
                                any(o[0] == 'param' and o[1] == '_1' for o in origins(bx, cc.args[0])):
                            harmful = True
                    if harmful:
                        hit = x + ' (call through a function pointer / trait object)'
                        break
                for y in cg.edges.get(x, ()):
                    if y != '<indirect>':
                        st.append(y)
            owner = b.path
            while owner in F.closure_parent:
                owner = F.closure_parent[owner]
            if hit is None:
                rep.ok('R1.8', 'cell closure in %s' % owner, 'cannot reach the evaluator')
            else:
                rep.viol('R1.8', '%s|cell-closure-runs-user-code' % owner, 'a closure that holds a variable cell mutably borrowed (passed to %s in %s) can run user code via %s: a failing or self-referential function leaves the variable half-updated or hits an internal borrow error' % (c.target.rsplit('::', 1)[-1], owner, hit), c.loc())
    rep.floor('R1.8', 'cell-writer closures', n8, 6)

    # ---------------- R1.9
    rep.rule('R1.9', 'take/restore pairing: when set_index moves a string payload out of its slot (mem::take on the make_mut result) every '
             'path to a return - including the error exits - stores a string back into that slot')
    sib = F.body(F.anchor('eval::set_index'))
    takes = [c for c in sib.calls if c.target in ('std::mem::take', 'core::mem::take') and 'String' in str(c.callee.get('g'))]
    if not takes:
        rep.note('set_index no longer moves the string payload out (R1.9 vacuous)')
    for tk in takes:
        slot = op_local(tk.args[0])
        # the &mut String local(s) the argument derives from
        slots = {slot}
        for (bb_, j_, kind_, s_) in sib.defs().get(slot, []):
            if kind_ == 'a' and s_[2][0] in ('ref', 'use'):
                pl = s_[2][-1] if s_[2][0] == 'ref' else (s_[2][1][1] if s_[2][1][0] in ('c', 'm') else None)
                if pl:
                    slots.add(pl[0])
        restores = set()
        for i in sib.reach:
            for s_ in sib.stmts(i):
                if s_[0] == 'a' and len(s_[1]) == 2 and s_[1][1] == '*' and s_[1][0] in slots:
                    restores.add(i)
        rets = set(sib.return_blocks())
        start = tk.next
        if restores and sib.every_path_passes(start, rets, restores):
            rep.ok('R1.9', 'set_index string arm', 'every exit after mem::take stores a string back (%d restore sites)' % len(restores))
        else:
            rep.viol('R1.9', 'eval::set_index|take-without-restore', 'set_index can return (e.g. on an index error) after moving the string out of its slot without putting one back: the variable silently becomes "" while aliases keep the old text', tk.loc())

    # ---------------- R1.5 (thorough)
    rep.rule('R1.5', 'compile-fail witnesses (thorough tier): writing through a shared handle to a list / dict / vector payload is rejected by '
             'rustc with E0596 while the twin through Rc::make_mut on a &mut handle compiles (cargo +nightly test --doc on /verif/witness)')
    if tier == 'thorough':
        vdir = getattr(F, 'verif_dir', '/verif')
        repo = getattr(F, 'repo_dir', '/repo')
        wsrc = os.path.join(vdir, 'witness')
        tmp = tempfile.mkdtemp(prefix='witness.', dir=os.path.join(vdir, '.cache'))
        try:
            shutil.copytree(os.path.join(wsrc, 'src'), os.path.join(tmp, 'src'))
            cargo = open(os.path.join(wsrc, 'Cargo.toml')).read().replace('path = "/repo"', 'path = "%s"' % repo)
            open(os.path.join(tmp, 'Cargo.toml'), 'w').write(cargo)
            shutil.copy(os.path.join(repo, 'Cargo.lock'), os.path.join(tmp, 'Cargo.lock'))
            envv = dict(os.environ, CARGO_NET_OFFLINE='true', CARGO_TARGET_DIR=os.path.join(vdir, '.cache', 'witness-target'))
            r = subprocess.run(['cargo', '+nightly', 'test', '--doc', '--offline'], cwd=tmp, env=envv, stdout=subprocess.PIPE, stderr=subprocess.STDOUT, text=True)
            lines = [l for l in r.stdout.splitlines() if l.startswith('test ') and not l.startswith('test result')]
            okn = [l for l in lines if l.endswith('... ok')]
            if r.returncode == 0 and len(okn) >= 6 and len(okn) == len(lines):
                for l in okn:
                    rep.ok('R1.5', l[5:].replace(' ... ok', ''), 'as expected')
            else:
                rep.viol('R1.5', 'witness|doc-tests', 'compile-fail witnesses or their compiling twins no longer behave as expected: %s' % ([l for l in lines if not l.endswith('... ok')] or r.stdout[-300:]), None)
        finally:
            shutil.rmtree(tmp, ignore_errors=True)
    else:
        rep.note('R1.5 (compile-fail witnesses) runs in the thorough tier only')
    # ---------------- R1.10
    rep.rule('R1.10', 'a nested write reaches the addressed slot itself: in set_index / modify_existing_index / modify_every_existing_index the '
             '&mut Obj handed to the recursive step is a reference into the container\'s own storage (pythonic_mut, IndexMut, HashMap '
             'get_mut / entry get_mut / vacant insert, iter_mut) - never a fresh clone written back afterwards and never the dict\'s shared '
             'default value')
    WALK = ('eval::set_index', 'eval::modify_existing_index', 'eval::modify_every_existing_index')
    STORAGE = ('pythonic_mut', 'index_mut', 'get_mut', 'insert', 'next', 'or_insert', 'or_insert_with', 'into_mut', 'last_mut', 'first_mut', 'deref_mut', 'make_mut',
               'find', 'find_map', 'nth', 'last', 'next_back', 'get_many_mut', 'split_first_mut', 'split_last_mut')      # iterator consumers over iter_mut hand out the stored element too
    n110 = 0
    for w in WALK:
        if not F.has_fn(w):
            rep.error('R1.10', 'missing ' + w)
            continue
        wb = F.body(w)
        for c in wb.calls:
            if c.target not in WALK:
                continue
            n110 += 1
            og = origins(wb, c.args[0], passthru=('branch',))
            og = {o for o in og if not (o[0] == 'agg' and o[1] == 'std::result::Result' and o[2] == 'Err')}      # the diverging arm of `match .. { None => Err(..)? }`
            bad = [o for o in og if not (o[0] == 'call' and o[1].rsplit('::', 1)[-1] in STORAGE)]
            if og and not bad:
                rep.ok('R1.10', '%s -> %s' % (w.rsplit('::', 1)[-1], sorted({o[1].rsplit('::', 1)[-1] for o in og})), 'slot is a reference into the container')
            else:
                kind = 'the shared default of the dict' if any(o[0] == 'payload' and 'Dict' in str(o[1:4]) for o in bad) else ('a copy of the element' if any(o[0] == 'call' and o[1].endswith('clone') for o in bad) else 'a value that is not the stored element')
                rep.viol('R1.10', '%s|slot|%s' % (w, sorted(str(o[:2])[:50] for o in bad)[:1]), '%s descends into %s (%s): the write does not land in the addressed slot - it changes a value shared by every other absent key, or works on a second copy that keeps the collection shared' % (w, kind, sorted(str(o[:2]) for o in bad)[:2]), c.loc())
    rep.floor('R1.10', 'recursive descents', n110, 14)
    # reading the old value of `(d[k] = fallback) op= v` evaluates the fallback only when the key is absent: the evaluate call of that
    # arm is not on every path from the dictionary lookup to the result (an eagerly evaluated fallback mutates variables the statement
    # does not address, e.g. `(d['a'] = pop q) += 1` with 'a' present)
    ela = 'eval::eval_lvalue_as_obj'
    if F.has_fn(ela):
        eb_ = F.body(ela)
        gets = [c for c in eb_.calls if c.target.rsplit('::', 1)[-1] == 'get' and 'HashMap' in c.target]
        evs = [c for c in eb_.calls if c.target == 'eval::evaluate']
        verdicts = []
        for ev_ in evs:
            related = [g for g in gets if eb_.dominates(g.bb, ev_.bb) or eb_.dominates(ev_.bb, g.bb)]
            if not related:
                continue
            g = related[0]
            first, second = (g, ev_) if eb_.dominates(g.bb, ev_.bb) else (ev_, g)
            # lazily evaluated: some path from the lookup to a return avoids the evaluate call
            rets = set(eb_.return_blocks())
            lazy = first is g and not eb_.every_path_passes(g.bb, rets, {ev_.bb})
            verdicts.append((lazy, ev_))
        if verdicts and all(v for v, _e in verdicts):
            rep.ok('R1.5', 'eval_lvalue_as_obj fallback', 'evaluated only on the path where the key is absent')
        elif verdicts:
            bad_ = [e for v, e in verdicts if not v][0]
            rep.viol('R1.5', ela + '|eager-fallback', 'the default expression of `(d[k] = fallback) op= v` is evaluated on every path, even when the key is present: its side effects (pop, consume, counters) hit variables the statement never addresses', bad_.loc())
    # ---------------- R1.11
    rep.rule('R1.11', 'whether a value is shared never decides a result: Rc::get_mut / strong_count / weak_count / try_unwrap / is_unique on a payload '
             'handle occur only in the reviewed "drain if unique, else iterate a copy" helpers (iter.rs) and on stream handles (advance only a '
             'unique stream); a builtin that branches on the sharing state of its operands makes `y := x` change what a later statement on x computes')
    SHARING = re.compile(r'rc::Rc::<T(, A)?>::(get_mut|strong_count|weak_count|try_unwrap|into_inner|is_unique|unwrap_or_clone)$')
    SHARE_OK = [
        (r"^<core::MutObjIntoIter(Pairs)?<'_> as std::iter::Iterator>::next$", 'dyn core::Stream', 'a stream is advanced in place only when this is its sole handle (C11 R11.2)'),
        (r"^iter::Rc(HashMap|String|Vec)Iter::<.*>::of$", '', 'drain the payload if unique, otherwise iterate over a copy: both paths yield the same elements'),
        (r"^iter::unwrap_or_clone$", '', 'move out if unique, else clone: same value'),
        (r"^optim::optimize$", 'core::LocExpr', 'AST optimisation pass, not a value'),
    ]
    from .census import Census as _Census
    C1 = _Census(F)
    n111 = 0
    for p_ in sorted(F.bodies_raw):
        if '::promoted' in p_:
            continue
        for c in F.body(p_).calls:
            if not SHARING.search(c.target):
                continue
            n111 += 1
            fk = C1.fn_key(p_)
            g = str(c.callee.get('g'))
            if any(re.search(rx, fk) and (ty in g) for rx, ty, _why in SHARE_OK):
                rep.ok('R1.11', '%s: %s' % (fk, c.target.rsplit('::', 1)[-1]), 'reviewed')
            else:
                rep.viol('R1.11', '%s|sharing-test|%s' % (fk, c.target.rsplit('::', 1)[-1]), '%s asks whether a payload is shared (%s on %s): if the answer selects a different computation, the result of an operation on x depends on whether some `y := x` exists - an alias changes what a later mutation of x does' % (fk, c.target.rsplit('::', 1)[-1], g[:60]), c.loc())
    rep.floor('R1.11', 'sharing-state queries in the crate', n111, 8)
    # ---------------- R1.12
    rep.rule('R1.12', 'an assignment computes its whole right-hand side from the old values: in the Expr::Assign arm of evaluate no '
             'evaluate(..) call is reachable after an assign / assign_every call (a pairwise `a, b = x, y` fast path that writes a before '
             'it evaluates y lets y read the new a)')
    from .core import find_match as _fm12, arm_region as _ar12, pat_str as _ps12
    if not F.has_fn('eval::evaluate'):
        rep.error('R1.12', 'eval::evaluate missing')
    else:
        eb12 = F.body('eval::evaluate')
        m12 = _fm12(F, 'eval::evaluate', r'core::Expr\b', min_arms=30)
        n112 = 0
        for i12, a12 in enumerate(m12['arms']):
            ps12 = _ps12(a12['pat'])
            if not re.search(r'\bExpr::Assign\b', ps12):
                continue
            regn12 = _ar12(F, eb12, m12, i12)
            WR12 = ('assign', 'assign_every', 'assign_all', 'assign_respecting_type')
            # the arm itself, and helpers the arm was extracted into (crate functions of eval called from the arm)
            cands = [(eb12, regn12)]
            for c in eb12.calls_in(regn12):
                if c.target.startswith('eval::') and F.has_fn(c.target) and c.target != 'eval::evaluate' and c.target.rsplit('::', 1)[-1] not in WR12 \
                        and not c.target.startswith('eval::eval_lvalue'):
                    hb = F.body(c.target)
                    cands.append((hb, set(hb.reach)))
            n112 += 1
            found, late = False, []
            for (b12, r12) in cands:
                cs12 = b12.calls_in(r12)
                asg12 = [c for c in cs12 if c.target.rsplit('::', 1)[-1] in WR12]
                evs12 = [c for c in cs12 if c.target == 'eval::evaluate']
                if asg12 and evs12:
                    found = True
                late += [(a_, e_) for a_ in asg12 for e_ in evs12 if e_.bb != a_.bb and e_.bb in (b12.reachable_from(a_.bb) & r12)]
            if late:
                rep.viol('R1.12', 'eval::evaluate|Assign|evaluate-after-write', 'part of the right-hand side is evaluated after a target has been written: `a, b = a + b, a - b` computes the second value from the new a', late[0][1].loc())
            elif not found:
                rep.error('R1.12', 'Expr::Assign arm: no body with both the evaluation of the right-hand side and the write')
            else:
                rep.ok('R1.12', 'Expr::Assign arm', 'no evaluate call reachable after a write call (%d bod(ies) examined)' % len(cands))
        rep.floor('R1.12', 'Expr::Assign arms', n112, 1)

    rep.undecided += ['clause (c): which index/key a type-correct mutation addresses and which value it writes']
    return META
