"""C05 - control flow, scoping and closures: scope table, exit algebra, declaration/assignment layering, short circuit."""
import re
from .core import (try_body_scope, scope_constructors, builds_error, CheckError, find_match, arm_region, pat_str, strip_ref, origins, only_when, pat_paths,
                   Registry, op_local, bool_switches)

META = {
    'level': 'other',
    'explanation': (
        'Decides the structural rules of the documented semantics, not equivalence with a reference interpreter: (R5.1) the scope '
        'table - which Expr arms of evaluate open a child Env (While, Switch, Try only; For through evaluate_for; calls through '
        'Closure::run) - exhaustively over all arms; (R5.2) fresh scope per iteration / per switch arm / per call: the with_parent '
        'sites lie on a CFG cycle of their function, and Closure::run parents the new scope on the closure\'s defining environment; '
        '(R5.3) a lambda captures the current environment handle (Rc::clone), no copy; (R5.4) exit algebra at every loop site: '
        'Break(0) absorbed, Break(n) re-raised as Break(n-1), Continue(0) continues, Continue(n) re-raised as Continue(n-1), '
        'everything else propagated; folds decrement Break; calls absorb Return only; try intercepts Throw only; (R5.5) := inserts '
        'in the given Env without consulting parent and refuses redeclaration, = walks the parent chain; (R5.6) and/or/coalesce '
        'evaluate their right operand only on the documented branch; (R5.7) if evaluates exactly one branch, sequences run forward.'),
    'trusted_base': ['rustc nightly HIR/MIR'],
    'assumptions': ['everything that depends on values (which iteration breaks, what a yield folds to, eval of a computed string)'],
}


def variant_of(a):
    ps = pat_paths(a['pat'])
    return ps[0].rsplit('::', 1)[-1] if ps else None


def fold_break_sites(F):
    """[(method, handles Break(0)?, loc)] for every method of a *Fold* builtin that calls its fold body (fn pointer) in a loop"""
    site_fns = {fn for fn, ms in F.matches.items() for m in ms if m['kind'] == 'Normal' and any('NErr::Break(int:0' in pat_str(a['pat']) for a in m['arms'])}
    out = []
    for imp in F.impls_of('core::Builtin'):
        if 'Fold' not in imp['self_ty']:
            continue
        for mname in ('run', 'run1', 'run2'):
            fn = F.impl_fn(imp, mname)
            if not fn or not F.has_fn(fn):
                continue
            fb_ = F.body(fn)
            drives = [c for c in fb_.calls if c.is_indirect and fb_.on_cycle(c.bb)]
            if drives:
                out.append((fn, fn in site_fns, drives[0].loc()))
    return out


def run(F, rep, tier):
    evaluate = F.anchor('eval::evaluate')
    eb = F.body(evaluate)
    me = find_match(F, evaluate, r'core::Expr\b', min_arms=30)
    arms = {}
    for i, a in enumerate(me['arms']):
        for p in pat_paths(a['pat']):
            if p.startswith('core::Expr::'):
                arms[p.rsplit('::', 1)[-1]] = i
    regions = {v: arm_region(F, eb, me, i) for v, i in arms.items()}
    WP = 'core::Env::with_parent'
    SC = scope_constructors(F)

    # ---------------- R5.1
    rep.rule('R5.1', 'scope table over all arms of evaluate: exactly While, Switch and Try call Env::with_parent; the match has no wildcard '
             'arm; For delegates to evaluate_for (which scopes per Normal/Item/Declare clause, not per Guard); calls scope in Closure::run',
             exhaustive=True)
    want_scoped = {'While', 'Switch', 'Try'}
    wild = [a for a in me['arms'] if strip_ref(a['pat']).get('k') in ('wild', 'bind')]
    if wild:
        rep.viol('R5.1', evaluate + '|wildcard', 'evaluate has a wildcard arm over Expr: new constructs would silently fall into it', eb.loc(0))
    rep.floor('R5.1', 'Expr arms', len(arms), 50)
    for v in sorted(arms):
        wp = [c for c in eb.calls_in(regions[v]) if c.target in SC]
        if (v in want_scoped) == bool(wp):
            rep.ok('R5.1', 'Expr::%s' % v, 'opens %d child scope site(s)' % len(wp))
        elif wp:
            rep.viol('R5.1', 'scope|%s|unexpected' % v, 'Expr::%s opens a child scope; the documented scoping constructs are functions, loops, switch arms and catch clauses' % v, wp[0].loc())
        else:
            rep.viol('R5.1', 'scope|%s|missing' % v, 'Expr::%s no longer opens a child scope' % v, eb.loc(min(regions[v])) if regions[v] else None)
    ok_t, det_t, loc_t = try_body_scope(F)
    if ok_t is None:
        rep.error('R5.1', 'Try: ' + det_t)
    elif ok_t:
        rep.ok('R5.1', 'evaluate Expr::Try body scope', det_t)
    else:
        rep.viol('R5.1', 'scope|Try|body-in-child-scope', 'evaluation runs the body of `try` in a child scope (%s) while freeze and the documented scoping treat declarations of a try body as declarations of the enclosing scope: a name declared in a try body is invisible afterwards, and frozen code resolves it lazily in the outer scope' % det_t, loc_t)
    allowed_callers = {evaluate, 'eval::evaluate_for', 'eval::<impl core::Closure>::run', 'eval::Closure::run'}
    for b in F.all_bodies():
        for c in b.calls:
            if c.target in SC and b.path not in allowed_callers:
                owner = b.path
                while owner in F.closure_parent:
                    owner = F.closure_parent[owner]
                if owner in allowed_callers or owner.startswith('<streams::') or owner in ('core::Env::with_parent',):
                    continue
                rep.note('with_parent also called in %s' % b.path)
    ef = 'eval::evaluate_for'
    efb = F.body(F.anchor(ef))
    fm = None
    for m in F.matches.get(ef, []):
        if m['kind'] == 'Normal' and 'ForIterationType' in m['scrut_ty']:
            fm = m
    if fm is None:
        rep.error('R5.1', 'evaluate_for: match on ForIterationType missing')
    else:
        for i, a in enumerate(fm['arms']):
            v = variant_of(a)
            regn = arm_region(F, efb, fm, i)
            wp = [c for c in efb.calls_in(regn) if c.target in SC]
            rec = [c for c in efb.calls_in(regn) if c.target == ef]
            if len(wp) == 1 and rec and efb.dominates(wp[0].bb, rec[0].bb):
                child = all(any(r[0] == 'call' and r[1] in SC for r in efb.roots(x.args[0])) for x in rec)
                if child:
                    rep.ok('R5.1', 'for clause %s' % v, 'one child scope, inner clauses run inside it')
                else:
                    rep.viol('R5.1', ef + '|%s|inner-env' % v, 'inner clauses of a for loop do not run in the freshly created scope', rec[0].loc())
            else:
                rep.viol('R5.1', ef + '|%s|scope' % v, 'for clause %s: expected exactly one child scope dominating the recursive call (found %d)' % (v, len(wp)), efb.loc(min(regn)) if regn else None)
        # guard clause: no scope
        guard_wp = [c for c in efb.calls if c.target in SC and not any(c.bb in arm_region(F, efb, fm, i) for i in range(len(fm['arms'])))]
        if guard_wp:
            rep.viol('R5.1', ef + '|Guard|scope', 'a guard clause opens a scope', guard_wp[0].loc())
        else:
            rep.ok('R5.1', 'for clause Guard', 'no scope')

    # ---------------- R5.2
    rep.rule('R5.2', 'fresh per iteration / arm / call: with_parent in evaluate_for (Normal, Item), While and Switch lies on a CFG cycle; '
             'Closure::run creates its scope from self.env (the defining environment) and does not receive the caller\'s environment')
    if fm is not None:
        for i, a in enumerate(fm['arms']):
            v = variant_of(a)
            if v in ('Normal', 'Item'):
                inarm = [c for c in efb.calls_in(arm_region(F, efb, fm, i)) if c.target in SC]
                for c in inarm:
                    if efb.on_cycle(c.bb):
                        rep.ok('R5.2', 'evaluate_for %s' % v, 'scope created inside the iteration loop')
                    else:
                        rep.viol('R5.2', ef + '|%s|hoisted' % v, 'the per-iteration scope of a for loop is created once outside the loop: closures created in different iterations share one variable', c.loc())
                if not inarm:
                    # no scope is created inside this clause at all: it was hoisted out of the match (or dropped)
                    anyc = [c for c in efb.calls if c.target in SC]
                    rep.viol('R5.2', ef + '|%s|hoisted' % v, 'the %s clause of a for loop creates no scope of its own inside the iteration (scope constructors called in evaluate_for: %d, none in this clause): all iterations share one variable scope, closures capture the same variable' % (v, len(anyc)), anyc[0].loc() if anyc else efb.loc(0))
    for v in ('While', 'Switch'):
        for c in [c for c in eb.calls_in(regions.get(v, set())) if c.target in SC]:
            if eb.on_cycle(c.bb):
                rep.ok('R5.2', 'Expr::%s' % v, 'scope created inside the loop')
            else:
                rep.viol('R5.2', evaluate + '|%s|hoisted' % v, 'Expr::%s creates its scope outside its loop' % v, c.loc())
    cr = [p for p in F.fns if re.search(r'(impl core::Closure>|^eval::Closure)::run$', p)]
    if not cr:
        rep.error('R5.2', 'Closure::run not found')
    else:
        cb = F.body(cr[0])
        wp = [c for c in cb.calls if c.target in SC]
        sig = F.fns[cr[0]]['inputs']
        if len(wp) == 1:
            og = origins(cb, wp[0].args[0], passthru=('deref', 'as_ref', 'borrow'))
            if og and all(o[0] == 'param' and o[1] == 'self' for o in og):
                rep.ok('R5.2', 'Closure::run', 'child of self.env (static scoping)')
            else:
                rep.viol('R5.2', cr[0] + '|parent', 'a call\'s scope is not parented on the closure\'s defining environment (%s)' % sorted(map(str, og)), wp[0].loc())
        else:
            rep.viol('R5.2', cr[0] + '|scope-count', 'Closure::run creates %d scopes per call' % len(wp), cb.loc(0))
        # every call gets the fresh scope: the body and the parameter binding run in an environment that can only be the new scope
        users = [c for c in cb.calls if c.target in ('eval::evaluate', 'eval::assign_all', 'eval::eval_lvalue', 'eval::assign')]
        nonfresh = []
        for c in users:
            og = origins(cb, c.args[0], passthru=('deref', 'as_ref', 'borrow'))
            if not og or not all(o[0] == 'call' and o[1] in SC for o in og):
                nonfresh.append((c, sorted(str(o[:2]) for o in og)))
        if users and not nonfresh:
            rep.ok('R5.2', 'Closure::run body scope', '%d use(s) of the environment, all of the freshly created scope' % len(users))
        elif nonfresh:
            rep.viol('R5.2', cr[0] + '|conditional-scope', 'Closure::run can evaluate the body or bind parameters in an environment that is not a fresh child scope (%s): for some lambdas a `:=` in the body lands in the defining scope, so a second call redeclares and closures share state' % nonfresh[0][1], nonfresh[0][0].loc())
        if not any('RefCell<core::Env>' in t for t in sig[1:]):
            rep.ok('R5.2', 'Closure::run signature', 'does not receive the caller\'s environment')
        else:
            rep.viol('R5.2', cr[0] + '|dynamic-scope', 'Closure::run receives an environment from its caller (dynamic scoping risk)', None)

    # ---------------- R5.3
    rep.rule('R5.3', 'Expr::Lambda builds Closure { env } from Rc::clone of the current environment handle (captures variables, not values)')
    lr = regions.get('Lambda')
    if lr is None:
        rep.error('R5.3', 'Lambda arm missing')
    else:
        aggs = [(bb, s) for bb, s in eb.aggregates(lr) if s[2][2] == 'core::Closure']
        if not aggs:
            rep.viol('R5.3', evaluate + '|Lambda|closure', 'no Closure is built in the Lambda arm', None)
        for bb, s in aggs:
            adt = F.adts.get('core::Closure')
            idx = [i for i, f in enumerate(adt['variants'][0]['fields']) if f['name'] == 'env'][0] if adt else None
            og = origins(eb, s[2][5][idx], passthru=('clone',)) if idx is not None else set()
            envs = [c for c in eb.calls_in(lr) if c.target.endswith('Env::with_parent') or c.target.endswith('Env::new') or c.target.endswith('Env::empty')]
            if og and all(o[0] == 'param' and o[1] == 'env' for o in og) and not envs:
                rep.ok('R5.3', 'Lambda', 'Closure.env = Rc::clone(env)')
            else:
                rep.viol('R5.3', evaluate + '|Lambda|env', 'a lambda does not capture the current environment handle (%s)' % sorted(map(str, og)), eb.loc(bb))

    # ---------------- R5.4
    rep.rule('R5.4', 'exit algebra: every loop-site match (For Execute/Yield/YieldItem, While, internal loops) absorbs Break(0) and '
             'Continue(0), re-raises Break(n) as Break(n - 1) and Continue(n) as Continue(n - 1); folds re-raise Break(n - 1); '
             'Closure::run / InternalLambda absorb Return only; Expr::Try intercepts Throw only', exhaustive=True)

    def exit_table(fn, m):
        b = F.body(fn)
        t = {}
        for i, a in enumerate(m['arms']):
            ps = pat_str(a['pat'])
            regn = arm_region(F, b, m, i)
            built = {(s[2][4]) for _bb, s in b.aggregates(regn) if s[2][2] == 'core::NErr'}
            dec = False
            for bb in regn:
                for s in b.stmts(bb):
                    if s[0] == 'a' and s[2][0] == 'bin' and s[2][1] in ('Sub', 'SubWithOverflow') and s[2][3][0] == 'k' and s[2][3][2].startswith('1_') \
                            and any(o[0] == 'payload' and ('Break' in o[3] or 'Continue' in o[3]) for o in origins(b, s[2][2])):
                        dec = True
            t[ps] = (built, dec, a['guard'], regn)
        return t

    nsites = 0
    for fn, ms in F.matches.items():
        for m in ms:
            if m['kind'] != 'Normal':
                continue
            pats = [pat_str(a['pat']) for a in m['arms']]
            has_b0 = any('NErr::Break(int:0' in p for p in pats)
            has_bn = any(re.search(r'NErr::Break\((?!int:)\w+,', p) for p in pats)
            if not (has_b0 and has_bn):
                continue
            nsites += 1
            b = F.body(fn)
            owner = fn
            while owner in F.closure_parent:
                owner = F.closure_parent[owner]
            tab = exit_table(fn, m)
            where = b.loc(min(min(r[3]) for r in tab.values() if r[3])) if any(r[3] for r in tab.values()) else None
            site = '%s@%s' % (fn, '/'.join(sorted(v for v, rg in regions.items() if fn == evaluate and any(x in rg for r in tab.values() for x in r[3]))) or 'fold')
            okb = False
            for p, (built, dec, guard, regn) in tab.items():
                if re.search(r'NErr::Break\((?!int:)\w+,', p):
                    okb = built == {'Break'} and dec
            is_loop = fn == evaluate
            if okb:
                rep.ok('R5.4', '%s Break(n)' % site, 're-raised as Break(n - 1)')
            else:
                rep.viol('R5.4', '%s|break-decrement' % site, 'Break(n) is not re-raised as Break(n - 1) at this site', where)
            b0 = [p for p in tab if 'NErr::Break(int:0' in p]
            if all(not tab[p][0] - {'Throw'} or tab[p][0] == set() for p in b0):
                rep.ok('R5.4', '%s Break(0)' % site, 'absorbed into a value')
            else:
                rep.viol('R5.4', '%s|break0' % site, 'Break(0) is re-raised instead of ending the loop', where)
            if is_loop:
                cn = [p for p in tab if re.search(r'NErr::Continue\((?!int:)\w+\)', p)]
                if cn and all(tab[p][0] == {'Continue'} and tab[p][1] for p in cn):
                    c0 = [p for p in tab if 'NErr::Continue(int:0' in p]
                    if c0 or all(tab[p][2] for p in cn):
                        rep.ok('R5.4', '%s Continue(n)' % site, 're-raised as Continue(n - 1); Continue(0) handled')
                    else:
                        rep.viol('R5.4', '%s|continue0' % site, 'Continue(0) is decremented (underflow) instead of continuing', where)
                else:
                    rep.viol('R5.4', '%s|continue-decrement' % site, 'a loop site does not re-raise Continue(n) as Continue(n - 1): `break continue` / `continue continue` through this loop reaches the wrong loop or escapes as an error', where)
            # default arm propagates
            dflt = [p for p in tab if re.match(r'^(v1::Err\(\w+\)|\w+@v1::Err\(_\))$', p)]
            if dflt and all(not tab[p][0] for p in dflt):
                rep.ok('R5.4', '%s other errors' % site, 'propagated unchanged')
            elif dflt:
                rep.viol('R5.4', '%s|default' % site, 'the catch-all error arm rebuilds an error', where)
    rep.floor('R5.4', 'loop/fold exit sites', nsites, 10)
    # a fold body signals its early exit with Break(0, value): every method that drives a fold body must translate it
    for fn, okf, loc_ in fold_break_sites(F):
        if okf:
            rep.ok('R5.4', '%s drives a fold body' % fn, 'Break(0, v) is turned into the result, Break(n) decremented')
        else:
            rep.viol('R5.4', '%s|fold-break-unhandled' % fn, '%s calls the fold body in a loop without translating its early-exit signal Break(0, value): `any([0, 1])` ends with a stray break that is neither a value nor caught by try, and terminates an enclosing loop' % fn, loc_)
    # evaluate_for callback wrapper: Continue(0) absorbed, Break not caught
    em = [m for m in F.matches.get(ef, []) if m['kind'] == 'Normal' and any('NErr::Continue(int:0' in pat_str(a['pat']) for a in m['arms'])]
    if em and not any('NErr::Break' in pat_str(a['pat']) for a in em[0]['arms']):
        rep.ok('R5.4', 'evaluate_for body wrapper', 'Continue(0) ends the iteration; Break is left to the loop site')
    else:
        rep.viol('R5.4', ef + '|wrapper', 'the per-iteration wrapper of evaluate_for no longer absorbs exactly Continue(0)', efb.loc(0))
    for fn in cr + [p for p in F.fns if re.search(r'impl core::Func>::run$', p)]:
        ms = [m for m in F.matches.get(fn, []) if m['kind'] == 'Normal' and any('NErr::Return' in pat_str(a['pat']) for a in m['arms'])]
        if ms and all(not any(x in pat_str(a['pat']) for x in ('NErr::Break', 'NErr::Continue', 'NErr::Throw')) for m in ms for a in m['arms']):
            rep.ok('R5.4', '%s' % fn, 'absorbs Return only')
        else:
            rep.viol('R5.4', fn + '|return', 'a call boundary does not absorb exactly NErr::Return', F.body(fn).loc(0))
    tr = regions.get('Try', set())
    tms = [m for m in F.matches.get(evaluate, []) if m['kind'] == 'Normal' and any('NErr::Throw' in pat_str(a['pat']) for a in m['arms'])
           and any(F.span_in(m['sp'], me['arms'][arms['Try']]['sp']) for _ in [0])]
    if tms:
        pats = [pat_str(a['pat']) for a in tms[0]['arms']]
        passthru = [p for p in pats if 'NErr::Break' in p and 'NErr::Continue' in p and 'NErr::Return' in p]
        if passthru and any('NErr::Throw' in p for p in pats):
            rep.ok('R5.4', 'Expr::Try', 'Break/Continue/Return pass through, Throw is caught')
        else:
            rep.viol('R5.4', evaluate + '|Try|intercept', 'try/catch intercepts control-flow exits or misses Throw: %s' % pats, None)
    else:
        rep.viol('R5.4', evaluate + '|Try|match', 'Expr::Try: no match separating Throw from control-flow exits', None)

    # ---------------- R5.5
    rep.rule('R5.5', 'Env::insert never reads Env.parent and raises on an occupied name unless allow_redeclaration; modify_existing_var and '
             'try_borrow_get_var walk the parent chain; insert_declare inserts into the environment it was given')

    def reads_field(b, fname):
        for i in b.reach:
            for s in b.stmts(i):
                if s[0] != 'a':
                    continue
                places = [s[1]]
                rv = s[2]
                if rv[0] in ('ref', 'discr', 'rawptr'):
                    places.append(rv[-1])
                for o in rv[1:]:
                    if isinstance(o, list) and o and o[0] in ('c', 'm'):
                        places.append(o[1])
                for pl in places:
                    if any(isinstance(p, str) and p.endswith(':' + fname) for p in pl[1:]):
                        return True
            t = b.term(i)
            if t[0] == 'call':
                for a in t[2]:
                    if a[0] in ('c', 'm') and any(isinstance(p, str) and p.endswith(':' + fname) for p in a[1][1:]):
                        return True
        return False
    ins = F.body(F.anchor('core::Env::insert'))
    if not reads_field(ins, 'parent'):
        rep.ok('R5.5', 'Env::insert', 'does not touch parent: declares in this scope only')
    else:
        rep.viol('R5.5', 'core::Env::insert|parent', ':= consults or writes an enclosing scope', ins.loc(0))
    errs = [c for c in ins.calls if builds_error(F, c)]
    if errs and reads_field(ins, 'allow_redeclaration'):
        rep.ok('R5.5', 'Env::insert redeclaration', 'error unless allow_redeclaration')
    else:
        rep.viol('R5.5', 'core::Env::insert|redeclare', 'redeclaration in the same scope is no longer refused', ins.loc(0))
    writes = [c for c in ins.calls if c.target.rsplit('::', 1)[-1] == 'insert' and ('HashMap' in c.target or 'Entry' in c.target or 'hash_map' in c.target)]
    bad_w = [w for w in writes if any(e.bb in ins.reachable_from(w.bb) for e in errs)]
    if writes and not bad_w:
        rep.ok('R5.5', 'Env::insert refusal is a no-op', 'no map write can be followed by the redeclaration error')
    elif bad_w:
        rep.viol('R5.5', 'core::Env::insert|write-before-refusal', 'Env::insert writes the variable map on a path that then raises the redeclaration error: a refused `:=` has already replaced the value, type and cell', bad_w[0].loc())
    for fn in ('core::Env::modify_existing_var', 'core::Env::try_borrow_get_var'):
        b = F.body(F.anchor(fn))
        if reads_field(b, 'parent') and any(c.target == fn for c in b.calls):
            rep.ok('R5.5', fn, 'recurses into parent on a miss')
        else:
            rep.viol('R5.5', fn + '|parent-walk', '%s no longer walks the parent chain' % fn, b.loc(0))
    idb = F.body(F.anchor('eval::insert_declare'))
    ic = [c for c in idb.calls if c.target == 'core::Env::insert']
    if ic and all(any(o[0] == 'param' and o[1] == 'env' for o in origins(idb, c.args[0], passthru=('deref', 'deref_mut', 'branch', 'try_borrow_mut_nres', 'borrow_mut'))) for c in ic):
        rep.ok('R5.5', 'insert_declare', 'inserts into the given env')
    else:
        rep.viol('R5.5', 'eval::insert_declare|env', 'declaration does not insert into the environment it was given', idb.loc(0))

    # ---------------- R5.6 / R5.7
    rep.rule('R5.6', 'And / Or / Coalesce: the left operand is evaluated once; the right operand is evaluated only when the left is truthy '
             '(and), falsy (or), null (coalesce); a path that skips the right operand exists', exhaustive=True)
    for v, want in (('And', True), ('Or', False)):
        regn = regions.get(v)
        if not regn:
            rep.error('R5.6', 'arm %s missing' % v)
            continue
        evs = [c for c in eb.calls_in(regn) if c.target == evaluate]
        tr_ = [c for c in eb.calls_in(regn) if c.target.endswith('Obj::truthy')]
        if len(evs) == 2 and len(tr_) == 1:
            first, second = (evs if eb.dominates(evs[0].bb, evs[1].bb) else evs[::-1])
            ok, why = only_when(eb, tr_[0], [second.bb], want=want)
            tested = any(r[0] == 'call' and r[1] == evaluate and r[2] == first.bb for r in eb.roots(tr_[0].args[0]))
            if ok and tested and eb.dominates(first.bb, tr_[0].bb):
                rep.ok('R5.6', 'Expr::%s' % v, 'rhs only when lhs is %s' % ('truthy' if want else 'falsy'))
            else:
                rep.viol('R5.6', evaluate + '|%s|short-circuit' % v, 'Expr::%s evaluates its right operand on the wrong branch or does not test the evaluated left operand (%s)' % (v, why), second.loc())
        else:
            rep.viol('R5.6', evaluate + '|%s|shape' % v, 'Expr::%s: expected two evaluate calls and one truthy test (%d/%d)' % (v, len(evs), len(tr_)), eb.loc(min(regn)))
    regn = regions.get('Coalesce')
    if regn:
        evs = [c for c in eb.calls_in(regn) if c.target == evaluate]
        if len(evs) == 2:
            first, second = (evs if eb.dominates(evs[0].bb, evs[1].bb) else evs[::-1])
            if not eb.postdominates(second.bb, first.bb) and eb.dominates(first.bb, second.bb):
                rep.ok('R5.6', 'Expr::Coalesce', 'rhs conditional on the lhs value')
            else:
                rep.viol('R5.6', evaluate + '|Coalesce|short-circuit', 'coalesce always evaluates its right operand', second.loc())
        else:
            rep.viol('R5.6', evaluate + '|Coalesce|shape', 'Coalesce: %d evaluate calls' % len(evs), eb.loc(min(regn)))
    rep.rule('R5.7', 'If evaluates the condition once and exactly one branch; Sequence iterates forward')
    regn = regions.get('If')
    if regn:
        evs = [c for c in eb.calls_in(regn) if c.target == evaluate]
        tr_ = [c for c in eb.calls_in(regn) if c.target.endswith('Obj::truthy')]
        if len(evs) == 3 and len(tr_) == 1:
            cond = [c for c in evs if eb.dominates(c.bb, tr_[0].bb)]
            br = [c for c in evs if c not in cond]
            if len(cond) == 1 and len(br) == 2:
                r1 = only_when(eb, tr_[0], [br[0].bb], want=True)[0] and only_when(eb, tr_[0], [br[1].bb], want=False)[0]
                r2 = only_when(eb, tr_[0], [br[1].bb], want=True)[0] and only_when(eb, tr_[0], [br[0].bb], want=False)[0]
                if r1 or r2:
                    rep.ok('R5.7', 'Expr::If', 'then-branch iff truthy, else-branch iff not')
                else:
                    rep.viol('R5.7', evaluate + '|If|branches', 'the two branches of if are not mutually exclusive on the condition', br[0].loc())
            else:
                rep.viol('R5.7', evaluate + '|If|shape', 'If: condition/branch evaluation shape changed', eb.loc(min(regn)))
        else:
            rep.viol('R5.7', evaluate + '|If|shape', 'If: expected condition + two branches (%d evaluate, %d truthy)' % (len(evs), len(tr_)), eb.loc(min(regn)))
    regn = regions.get('Sequence')
    if regn:
        revs = [c for c in eb.calls_in(regn) if c.target.endswith('::rev')]
        evs = [c for c in eb.calls_in(regn) if c.target == evaluate]
        if evs and not revs:
            rep.ok('R5.7', 'Expr::Sequence', 'forward iteration')
        else:
            rep.viol('R5.7', evaluate + '|Sequence|order', 'sequence statements are not evaluated in source order', eb.loc(min(regn)))
    # ---------------- R5.8
    rep.rule('R5.8', 'grammar layering of the short-circuit operators: Parser::single (or / coalesce level) loops and parses both operands '
             'with logic_and, logic_and loops and parses both operands with chain; neither recurses into itself for an operand, so these '
             'operators are left-associative and `a coalesce b or c` groups as `(a coalesce b) or c`')
    for fn, sub in (('core::Parser::single', 'core::Parser::logic_and'), ('core::Parser::logic_and', 'core::Parser::chain')):
        if not F.has_fn(fn):
            rep.error('R5.8', 'missing ' + fn)
            continue
        pb = F.body(fn)
        selfrec = [c for c in pb.calls if c.target == fn]
        subs = [c for c in pb.calls if c.target == sub]
        aggs = [bb for bb, s_ in pb.aggregates() if s_[2][2] == 'core::Expr' and s_[2][4] in ('Or', 'Coalesce', 'And')]
        if not selfrec and len(subs) >= 2 and aggs and all(pb.on_cycle(bb) for bb in aggs):
            rep.ok('R5.8', fn, 'operands parsed by %s in a loop (%d call sites), no self-recursion' % (sub.rsplit('::', 1)[-1], len(subs)))
        else:
            rep.viol('R5.8', fn + '|layering', '%s parses an operand by calling itself or no longer loops over %s (self calls %d, %s calls %d): the grouping of and / or / coalesce chains changes' % (fn.rsplit('::', 1)[-1], sub.rsplit('::', 1)[-1], len(selfrec), sub.rsplit('::', 1)[-1], len(subs)), (selfrec or subs or [None])[0].loc() if (selfrec or subs) else None)
    # a (re)declaration always installs the declared type: on every path of Env::insert that does not raise, the `ty` argument is stored
    insb = F.body('core::Env::insert') if F.has_fn('core::Env::insert') else None
    if insb is None:
        rep.error('R5.5', 'Env::insert missing')
    else:
        ty_local = 3          # (&mut self, key, ty, val): locals 1..4
        uses = set()
        for bb in insb.reach:
            for s_ in insb.stmts(bb):
                if s_[0] == 'a' and any(isinstance(x, list) and len(x) > 1 and x[0] in ('m', 'c') and x[1] and x[1][0] == ty_local for x in ([s_[2][1]] if s_[2][0] == 'use' else (s_[2][5] if s_[2][0] == 'agg' and len(s_[2]) > 5 else []))):
                    uses.add(bb)
        okret = {bb for bb, s_ in insb.aggregates() if s_[1] == [0] and s_[2][4] == 'Ok'}
        if uses and okret and insb.every_path_passes(0, okret, uses):
            rep.ok('R5.5', 'Env::insert stores the declared type', 'every successful path moves `ty` into the entry')
        else:
            rep.viol('R5.5', 'core::Env::insert|type-not-stored', 'Env::insert has a successful path on which the declared type is not stored (a redeclaration that keeps the old entry): after `x: int = 1; x: str = \'a\'` the variable still has type int', insb.loc(0))
    # only a call boundary absorbs `return`: arms matching NErr::Return exist in Closure::run / Func::run (the call boundaries), evaluate
    # (Expr::Return builds it, lambdas), and NErr's own plumbing - a builtin such as eval must let it travel to the enclosing function
    from .census import Census as _C5
    c5 = _C5(F)
    RET_OK = re.compile(r'^(<core::NErr as .*|core::NErr::\w+|core::err_add_name|eval::evaluate|eval::<impl core::(Closure|Func)>::run|eval::(Closure|Func)::run)$')
    nret = 0
    for fn_, ms_ in F.matches.items():
        for m_ in ms_:
            if m_['kind'] == 'Normal' and any('NErr::Return' in pat_str(a['pat']) for a in m_['arms']):
                nret += 1
                fk_ = c5.fn_key(fn_)
                if RET_OK.search(fk_):
                    rep.ok('R5.4', '%s handles NErr::Return' % fk_, 'call boundary / error plumbing')
                else:
                    rep.viol('R5.4', '%s|absorbs-return' % fk_, '%s has a match arm on NErr::Return: a `return` executed inside it (e.g. in code run by eval) is absorbed there instead of leaving the enclosing function' % fk_, F.loc(m_['sp']))
    rep.floor('R5.4', 'matches on NErr::Return', nret, 4)
    # ---------------- R5.10
    rep.rule('R5.10', '`for .. yield e into first` stops at the first element: CataFirst::give ends the loop by returning Err(Break(0, Some(value))) '
             '(the loop sites absorb Break(0), R5.4), so later iterations - their side effects, errors and non-termination - do not happen')
    cf_ = [p_ for p_ in F.fns if 'CataFirst' in p_ and p_.endswith('::give')]
    if not cf_:
        rep.error('R5.10', 'CataFirst::give missing')
    else:
        gb_ = F.body(cf_[0])
        brk = [(bb, s_) for bb, s_ in gb_.aggregates() if s_[2][2] == 'core::NErr' and s_[2][4] == 'Break']
        oks = [(bb, s_) for bb, s_ in gb_.aggregates() if s_[1] == [0] and s_[2][2] == 'std::result::Result' and s_[2][4] == 'Ok']
        if brk and not oks:
            rep.ok('R5.10', 'CataFirst::give', 'always Err(Break(..)): the fold ends at the first element')
        else:
            rep.viol('R5.10', 'CataFirst::give|no-early-exit', '`into first` lets the loop run on after the first element (give returns Ok on %d path(s), builds Break %d time(s)): the iterations after the first still run, with their effects and errors' % (len(oks), len(brk)), gb_.loc(0))
    # ---------------- R5.9
    rep.rule('R5.9', '`for .. yield e into max|min` is the fold of the same function: CataExtremum::give replaces its incumbent under exactly the '
             'test Extremum::run uses (ncmp(candidate, incumbent) == bias; first of equal values wins; incomparable values raise)')
    from .c08 import cata_extremum
    found_, ok_, why_, loc_ = cata_extremum(F)
    if not found_:
        rep.error('R5.9', why_)
    elif ok_:
        rep.ok('R5.9', 'CataExtremum::give', 'agrees with Extremum::run')
    else:
        rep.viol('R5.9', 'CataExtremum::give|shape', 'the folding form `yield .. into max|min` disagrees with max|min applied to the list: %s' % why_, loc_)
    # ---------------- R5.11
    rep.rule('R5.11', 'keyed `for .. yield k: v into f`: the value expression is evaluated only while the fold of its key is still running - in the '
             'per-element closure every evaluate(..) that runs before the accumulator lookup (HashMap::entry) produces the key; an evaluation '
             'that dominates the lookup and does not feed it also runs for keys whose fold has already finished (`into first`), so its side '
             'effects are observed although the element is ignored')
    n11 = 0
    for kb in F.all_bodies():
        ent = [c for c in kb.calls if c.target.endswith('::entry') and any('Catamorphism' in str(g) for g in (c.callee.get('g') or []))]
        if not ent:
            continue
        for e_ in ent:
            keyroots = kb.roots(e_.args[1], through_calls=('to_key', 'branch', 'clone', 'into'))
            keybbs = {r_[2] for r_ in keyroots if r_[0] == 'call' and r_[1] == 'eval::evaluate'}
            evs = [c for c in kb.calls if c.target == 'eval::evaluate' and c.bb != e_.bb and kb.dominates(c.bb, e_.bb)]
            n11 += 1
            stray = [c for c in evs if c.bb not in keybbs]
            if stray:
                rep.viol('R5.11', 'keyed-yield|value-before-lookup', 'the per-element closure of the keyed yield evaluates an expression that is not the key before it looks the key up: the value expression then also runs for keys whose fold has finished', stray[0].loc())
            elif not keybbs:
                rep.error('R5.11', 'the key of the accumulator lookup does not come from an evaluate call')
            else:
                rep.ok('R5.11', 'keyed yield: evaluations before the lookup', '%d, all of them the key' % len(evs))
    rep.floor('R5.11', 'keyed-yield accumulator lookups', n11, 1)
    # ---------------- R5.12
    rep.rule('R5.12', 'a statement list that ends with `;` evaluates to null: Parser::expression records the trailing semicolon in the flag of '
             'Expr::Sequence(stmts, flag), and the shortcut that returns a single statement unwrapped (Vec::remove / pop) is taken only '
             'when that same flag is false - otherwise `(e;)` yields the value of e')
    pe = 'core::Parser::expression'
    if not F.has_fn(pe):
        rep.error('R5.12', pe + ' missing')
    else:
        pb = F.body(pe)
        flags = set()
        for bb, s_ in pb.aggregates(pb.reach):
            if s_[2][2] == 'core::Expr' and s_[2][4] == 'Sequence' and len(s_[2][5]) == 2:
                op = s_[2][5][1]
                for _ in range(6):
                    if op[0] not in ('c', 'm') or len(op[1]) != 1:
                        break
                    ds = pb.defs().get(op[1][0], [])
                    if len(ds) == 1 and ds[0][2] == 'a' and ds[0][3][2][0] == 'use':
                        op = ds[0][3][2][1]
                    else:
                        flags.add(op[1][0])
                        break
        unwraps = {c.bb for c in pb.calls if re.search(r'Vec::<.*>::(remove|swap_remove|pop)$', c.target)}
        if not flags:
            rep.error('R5.12', 'Parser::expression builds no Expr::Sequence with a flag local')
        elif not unwraps:
            rep.ok('R5.12', pe, 'no unwrapping shortcut')
        else:
            sws = [sw for fl in flags for sw in bool_switches(pb, fl)]
            bad = [sw for sw in sws if unwraps & pb.reachable_from(sw[1], avoid={sw[0]})]
            if not sws:
                rep.viol('R5.12', pe + '|unwrap-ignores-semicolon', 'the single-statement shortcut does not depend on the trailing-semicolon flag: `(e;)` evaluates to e instead of null', pb.loc(min(unwraps)))
            elif bad:
                rep.viol('R5.12', pe + '|unwrap-with-semicolon', 'the single-statement shortcut is reachable when the trailing-semicolon flag is set', pb.loc(min(unwraps)))
            else:
                rep.ok('R5.12', pe, 'unwrapping only when the Sequence flag is false (%d switch(es))' % len(sws))

    rep.undecided += ['equivalence with a reference interpreter over all programs', 'yield/into folding values', 'eval of computed strings']
    return META
