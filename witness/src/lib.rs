//! Compile-fail witnesses for C01 (value semantics) with compiling twins.
//!
//! A collection payload is an `Rc<..>` inside `Seq`; safe code can mutate it only after
//! `Rc::make_mut` (clones when shared) or `Rc::get_mut` (fails when shared) on a `&mut` handle.
//! If the payload type ever stops being an `Rc` of a plain container the twins stop compiling
//! (and the witness may start compiling): either way `cargo +nightly test --doc` fails.

/// Pushing into the list payload reached through a shared reference must not type-check.
/// ```compile_fail,E0596
/// use noulith::{Obj, Seq};
/// fn f(s: &Seq) {
///     if let Seq::List(v) = s {
///         v.push(Obj::Null); // cannot borrow data in an `Rc` as mutable
///     }
/// }
/// ```
///
/// Twin: identical except that it goes through `Rc::make_mut` on a `&mut Seq`.
/// ```
/// use noulith::{Obj, Rc, Seq};
/// fn f(s: &mut Seq) {
///     if let Seq::List(v) = s {
///         Rc::make_mut(v).push(Obj::Null);
///     }
/// }
/// ```
pub struct ListPayload;

/// Inserting into a dict payload through a shared handle must not type-check.
/// ```compile_fail,E0596
/// use noulith::{Obj, Seq};
/// fn f(s: &Seq, k: noulith::ObjKey) {
///     if let Seq::Dict(d, _) = s {
///         d.insert(k, Obj::Null);
///     }
/// }
/// ```
///
/// Twin:
/// ```
/// use noulith::{Obj, Rc, Seq};
/// fn f(s: &mut Seq, k: noulith::ObjKey) {
///     if let Seq::Dict(d, _) = s {
///         Rc::make_mut(d).insert(k, Obj::Null);
///     }
/// }
/// ```
pub struct DictPayload;

/// A clone of a handle never lets the clone write through: the clone is another `Rc`.
/// ```compile_fail,E0596
/// use noulith::{Obj, Seq};
/// fn f(s: &Seq) {
///     let t = s.clone();
///     if let Seq::Vector(v) = &t {
///         v.clear();
///     }
/// }
/// ```
///
/// Twin:
/// ```
/// use noulith::{Obj, Rc, Seq};
/// fn f(s: &Seq) {
///     let mut t = s.clone();
///     if let Seq::Vector(v) = &mut t {
///         Rc::make_mut(v).clear();
///     }
/// }
/// ```
pub struct ClonedHandle;
