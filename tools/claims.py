# claims table: executed by mkmanifest.py (claim(pid, text, technique, level))
claim('C12',
      'Decides structural clauses, not pattern semantics over values: exhaustive arm-by-arm agreement of type_of '
      'and is_type (v is type(v), v is anything, registered types accepted), is_type on every path of every '
      'variable-writing closure, switch/try arm-loop shape, and dominance of the splat length subtraction by its '
      'comparison. A finite decision table extracted from rustc HIR plus CFG path queries over MIR.',
      'finite pattern tables from HIR + MIR must-pass-through (dominance) queries')
