# claims table: executed by mkmanifest.py (claim(pid, text, technique, level))
claim('C12',
      'Decides structural clauses, not pattern semantics over values: exhaustive arm-by-arm agreement of type_of '
      'and is_type (v is type(v), v is anything, registered types accepted), is_type on every path of every '
      'variable-writing closure, switch/try arm-loop shape, and dominance of the splat length subtraction by its '
      'comparison, the splat-adjusted threshold of defaults, the inverse-operation table of operator patterns, per-element '
      'evaluation of for-clause patterns in the iteration scope, and commitment of switch to the first matching arm. A finite decision table extracted from rustc HIR plus CFG path queries over MIR.',
      'finite pattern tables from HIR + MIR must-pass-through (dominance) queries')
claim('C07',
      'Decides the dispatch structure of the numeric tower, not numeric values: the exhaustive 4x4 result-level table of '
      'every binary_match!-generated operator impl and of div_floor/mod_floor (288 rows), that each level applies the impl\'s '
      'own operation, that // and %% come from one rounding family per level (flooring helpers), the operand-side, '
      'length-guard and error arms of the vectorisation wrappers, and the zero-divisor guard of exact division; no unreduced Ratio::new_raw anywhere; a rational becomes a float only through the correctly rounded whole-fraction conversion. rational(x) never parses the rendering of a number.',
      'finite decision tables from HIR patterns + MIR callee/provenance facts')
claim('C06',
      'Decides representation independence of the integer dispatch layer, not arithmetic exactness: sign/signum tables by '
      'abstract interpretation over {neg,zero,pos}; same operation in both arms of every Small/Big match; checked_<op> fast '
      'paths paired with the same trait on BigInt; crate-wide discipline on what may flow into an NInt::Small (no casts, no '
      'unchecked/wrapping/checked_shl results); nobody outside nint.rs reads the representation; Eq/Ord/Hash ignore it; zero '
      'divisors are tested before exact division; div_floor/mod_floor/gcd/lcm/sqrt/pow/shifts go through BigInt; a reviewed census of truncating-remainder uses outside the '
      'operator layers (the library\'s modulo is mod_floor); operand roles (self, other) in every BigInt fallback.',
      'value-origin dataflow over MIR + sibling-arm agreement + abstract interpretation on the sign domain')
claim('C08',
      'Decides structural clauses, not the order laws themselves: no lossy conversion or int/float cast reachable from any '
      'comparison entry point (call-graph closure), f64->BigInt only on floor(f) or under an integrality test, exhaustive '
      'decision tables of the eight comparison operators, max/min bias and cmp_nint_f64, mirrored (Float,Int)/(Int,Float) arms, '
      'incomparable => error, stable sort, infinities separated before partial exact conversions, and no pointer-identity shortcut (Rc::ptr_eq) anywhere in '
      'the comparison closure (with a positive control); the folding form `into max|min` uses the same test as max|min; sort comparators raise on incomparable elements themselves; the Option results of two checked narrowings are never compared with each other.',
      'forbidden-callee reachability over the resolved call graph + finite decision tables from MIR')
claim('C09',
      'Decides the Eq/Hash coherence discipline of dictionary keys structurally, not operation histories: canonical hashing '
      'sinks per numeric level (integral values through the integer hash, non-integral rationals and floats through one shared '
      'exact-fraction hash, imaginary part only when non-zero), NaN as one constant, matching element functions and kinds in key '
      'equality and key hashing, an order-independent per-entry combiner for nested dicts, key construction confined to the '
      'validating to_key, left-operand filtering and left-operand result (map and default) of the dict operators, set() building its own map, and no narrowing cast or '
      'bit-count shortcut in any key hash.',
      'sink/callee discipline over MIR arms + CFG cycle and dominance queries')
claim('C11',
      'Decides structural clauses, not closed forms over values: for every impl Stream the len/force overrides agree with whether '
      'next can end; observation methods take &self and iterate a clone_box() copy while Rc<dyn Stream> holders advance only through '
      'Rc::get_mut; every peek()-guarded loop makes progress; Range::len is sign-symmetric as a symbolic linear form with clamped '
      'numerators and Range::empty compares in the direction of the step; infinite streams declare it and len maps that to inf; overriding len/peek/index methods read the cursor field '
      'next() advances on every result-producing path; Iterate yields the current element before stepping; Range::len(None end) decided by '
      'evaluating the MIR on that abstract input; per stream type, peek has a length-versus-length exhaustion guard only if next has one. A reversed override of Range derives its first element through a division or length.',
      'per-impl decision table from MIR return origins + CFG progress queries + symbolic linear forms')
claim('C10',
      'Decides structural clauses, not the clamp arithmetic: every positional payload access in the read/write/remove/slice functions '
      'takes its position from one of the shared normalisers (value-origin dataflow), accessor builtins are the documented index/slice '
      'expressions, all six sequence kinds are handled explicitly with byte-indexed strings, machine arithmetic on user indices is '
      'sign-guarded or reviewed, prefix iteration of streams requires non-negative bounds, bad indices raise, isize->usize casts in the normalisers are '
      'sign-guarded, stream index overrides consult the cursor, absent slice-section bounds consume no argument, the clamping helper is used for slice bounds only, and only the Int level converts to an index.',
      'value-origin dataflow over MIR + accessor decision table + assert census with sign-guard dominance')
claim('C03',
      'Decides the ingredients of operator-precedence grouping, not the grouping theorem: the exhaustive tie-break table of '
      'tighter_than_when_before enumerated from MIR discriminant paths with operand roles, the shunting shape of give/finish '
      '(pop/try_chain/run only on the reduce path, merge keeps the popped precedence, final push of the incoming operator, operand '
      'order), driver and sibling agreement, left-to-right single evaluation in the chain loop, and the complete who-chains-with-whom '
      'table of all try_chain overrides, each returning its own operator type; assigning a precedence keeps the associativity; the tie-break table is obtained by evaluating the '
      'function on all 16 abstract inputs; sections fill their leading blank first. A binary application over three evaluated parts evaluates left operand, operator, right operand in that order.',
      'discriminant-path enumeration of MIR + guard-polarity/dominance queries + literal tables from HIR patterns')
claim('C04',
      'Decides agreement of the dispatch paths, not extensional equality per builtin: run vs run1/run2 of every impl Builtin '
      '(delegation or equal effect signature), the argument side of every partial-application wrapper in Func::run/run1/run2, '
      'constructor helpers, call-or-partially-apply, the operand order of then/./.>/<./apply/of, the read-old -> rhs -> drop -> '
      'run2(old, rhs) -> assign order of op-assign, right sections for one-argument builtin calls, the 8-row splat/section decision table, in-order slot filling of sections, and no independent run1/run2 override that run neither calls '
      'nor mirrors (including whether the path can reject its argument), and the lexer splitting every operator run other than ! < > = before a trailing `=`; nested PartialAppLast wrappers hold the earlier argument outside.',
      'sibling-implementation cross-check + operand provenance over MIR')
claim('C05',
      'Decides the structural rules of the documented semantics, not equivalence with a reference interpreter: the exhaustive scope '
      'table over all arms of evaluate and the clauses of evaluate_for, per-iteration/per-arm/per-call freshness of scopes (CFG '
      'cycles, static parent), environment capture by lambdas, the exit algebra of every loop/fold/call/try site (Break/Continue '
      'counts decremented by one, Return absorbed only by calls, Throw only by try), declaration vs assignment layering over the '
      'Env parent chain, short-circuit polarity of and/or/coalesce, branch exclusivity of if, refusal of a redeclaration before any map write, and '
      'the left-associative grammar layering of or/coalesce over and over chains, every use of an environment in Closure::run being the fresh '
      'scope, the try body running in the enclosing scope, fold builtins translating their body\'s Break, `into max|min` agreeing with max|min, `into first` ending the loop, and every successful insert storing the declared type, and the value of a keyed yield evaluated only after the key lookup. The parser unwraps a one-statement list only without a trailing semicolon.',
      'exhaustive arm tables from HIR + CFG cycle/dominance/guard-polarity queries over MIR')
claim('C17',
      'Decides structural agreement of the freeze traversal with the evaluator, not semantic equivalence over programs: scope copies '
      'exactly where evaluation scopes (per switch arm, catch-only, lambda, loops), binder placement and declared_only flags, identity '
      'rewrite of all Expr and Lvalue arms, every LocExpr/Lvalue child field produced by the freeze family, error exits confined to '
      'warn == false, fully guarded constant folds, the FreezeEnv built by Expr::Freeze, union of binders across or/and patterns, shape-preserving freeze wrappers, the evaluator-side placement of the try scope, the unary-minus '
      'fold using the operation evaluation uses, and `_` tolerated by freeze only in section positions.',
      'sibling-traversal cross-check over HIR arms + field provenance over MIR')
claim('C01',
      'Proof, relative to the soundness of safe Rust, of the aliasing clauses (a mutation is never visible through another holder of a '
      'payload; calling a function on a value leaves the variable unchanged): all side conditions under which Rc<payload> can only be '
      'mutated through make_mut/get_mut are discharged as obligations - no user unsafe (with positive control), interior mutability '
      'confined to reviewed environment/memo edges over the whole type graph reachable from Obj, uniquely owned variable cells, cell '
      'writers confined to the evaluator, arguments by value - plus the read-before-write ordering of op-assign and swap, no user code under a mutable cell borrow, take/restore pairing of '
      'moved-out string payloads, nested writes descending into the stored slot itself (never a clone or the dict default), and no result-deciding query of the '
      'sharing state of a payload; thorough adds '
      'compile-fail witnesses with compiling twins. Which slot a mutation addresses is not decided.',
      'type-graph reachability + who-may-call census + compile_fail witnesses (typestate enforced by rustc)', level='proof')
claim('C02',
      'Decides the structural necessary conditions of in-place mutation, not the allocation bound: the target slot is nulled (and '
      'really released - no-op drops only for homogeneous payloads) before the operator runs on the value read, elements are taken out '
      'before the every-function runs, every function of the in-place path goes through Rc::make_mut and contains no whole-payload '
      'copy or reallocation, consuming iterators drain unique handles, arguments travel by value, the drop before the operator is unconditional on '
      'every path, no write closure snapshots the cell it is about to write, the walkers never clone the element they fetched, and no in-place function takes a second Rc handle to its payload. Env::modify_ident clones no value. An assignment evaluates nothing after its first write.',
      'dominance (must-pass-through) + forbidden-callee census over the in-place function table')
claim('C14',
      'Decides an exact, reviewed inventory rather than panic-freedom for all inputs: every explicit panic site and every compiler-'
      'inserted arithmetic assert in the call closure of the pure language (trait objects, fn pointers and std callbacks fanned out; the '
      'I/O builtins excluded by table) is keyed without line numbers and either discharged by a sound class (unit-step counters, constant '
      'divisors, dominating comparison with the right polarity, exit-count decrements) or listed with a one-line verdict; unlisted sites '
      'and changed counts are violations. Also: NRes values are never silently discarded outside the reviewed idioms, control-flow error '
      'variants are built only at reviewed sites, peek loops make progress, partial division-like operations are zero-guarded, and every '
      'indexing operation (bounds checks, Index::index on Vec/slice/str/HashMap) is normaliser-derived or reviewed; std calls with index/range/radix preconditions and allocations sized by a user-supplied number are censused '
      'too (the latter are listed known findings); streams inheriting the draining len latch every error they return. Termination in general, stack depth and dependency panics '
      'are not decided.',
      'call-graph reachability census with reviewed triage tables + guard-polarity dominance')
claim('C15',
      'Decides totality ingredients and literal tables, not the digit semantics of std/num parsers: the panic/arithmetic census '
      'restricted to the lexer/parser closure (reviewed table, unlisted site => violation), Invalid tokens built only by the lexer and '
      'tokens read only through get(), progress of every lexer peek loop and (thorough) of every parser loop via a consuming-on-Ok least '
      'fixed point over the recursive-descent methods, and the literal tables (radix prefixes, NrDIGITS bounds, base-64 alphabet, escapes, '
      'suffixes) extracted from HIR patterns, no silent narrowing of literals (cast census), float literal tokens are one parse::<f64> of '
      'their whole text, and no Unicode-numeric character class in the front end.',
      'census over the front-end call closure + CFG progress analysis + literal tables from HIR patterns')
claim('C16',
      'Decides table agreement between paired encoders/decoders and the wiring of exact conversions, not the round-trip equalities '
      '(dependencies): hex digit classes vs encoder alphabet and even-length guard, identical base range and digit functions in '
      'str_radix/int_radix with the sign emitted in front, FmtBase and format-flag tables with NInt forwarding the same formatting trait '
      'in both representations, mutual coverage of JSON kinds, no untriaged panic site in any codec body, and sign-before-split, checked '
      'exponent arithmetic and no leading-digit dropping in the exact decimal parser, the {:02x} template of hex_encode (decoded from the '
      'format_args encoding) against the decoder\'s two-digit chunks, a crate-wide lossy-cast census, and arbitrary-precision text->number '
      'parsing (machine-typed parse sites reviewed; JSON integers through as_i64), plain-Display rendering in repr, per-interpolation format flags, last-binding-wins dict literals, and Debug formatting on every repr path of write_string.',
      'paired decision tables from HIR patterns/MIR constants + census + callee discipline')
claim('C13',
      'The equations f(xs) == reference(xs) are NOT decided (runtime values). Decided are only the clauses of the statement that are '
      'finite tables or shapes: the exhaustive kind-preservation table of the filter/sort/unique/reverse/take/drop/uncons/unsnoc helpers '
      '(input kind -> constructed kind), stable sorting and first-occurrence uniqueness, the initial element of the combinatorial streams, '
      'progress of the predicate loops over streams, non-short-circuiting row construction in ziplongest, adjacency in group-by-relation, a window-free exit of window, predicates not '
      're-run after their first failure, f(accumulator, element) in fold/scan, and cartesian products always building fresh lists. A reversed override of Range derives its first element through a division or length.',
      'finite kind tables from HIR match arms + guard-polarity query')
