# claims table: executed by mkmanifest.py (claim(pid, text, technique, level))
claim('C12',
      'Decides structural clauses, not pattern semantics over values: exhaustive arm-by-arm agreement of type_of '
      'and is_type (v is type(v), v is anything, registered types accepted), is_type on every path of every '
      'variable-writing closure, switch/try arm-loop shape, and dominance of the splat length subtraction by its '
      'comparison. A finite decision table extracted from rustc HIR plus CFG path queries over MIR.',
      'finite pattern tables from HIR + MIR must-pass-through (dominance) queries')
claim('C07',
      'Decides the dispatch structure of the numeric tower, not numeric values: the exhaustive 4x4 result-level table of '
      'every binary_match!-generated operator impl and of div_floor/mod_floor (288 rows), that each level applies the impl\'s '
      'own operation, that // and %% come from one rounding family per level (flooring helpers), the operand-side, '
      'length-guard and error arms of the vectorisation wrappers, and the zero-divisor guard of exact division.',
      'finite decision tables from HIR patterns + MIR callee/provenance facts')
