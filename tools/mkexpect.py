#!/usr/bin/env python3
"""Build mutants/EXPECT.json from the last seedtest run (.cache/seedtest.json): mutant dir -> {property: [violation keys]}.
Only the first two keys per property are kept (the named instances the self-test must see again)."""
import json, os, re
V = os.path.dirname(os.path.dirname(os.path.abspath(__file__)))
res = json.load(open(os.path.join(V, '.cache', 'seedtest.json')))
out = {}
for name, fired in sorted(res.items()):
    e = {}
    for pid, keys in fired.items():
        ks = []
        for k in keys:
            k = k.replace('key:', '').strip()
            if 'check-error' in k or 'floor is' in k:
                continue
            # drop the rule prefix's volatile parts? keep the whole key: it has no line numbers
            ks.append(k)
        if ks:
            e[pid] = ks[:2]
    if e:
        out[name] = e
json.dump(out, open(os.path.join(V, 'mutants', 'EXPECT.json'), 'w'), indent=1, sort_keys=True)
print(len(out), 'changes with expectations')
