#!/usr/bin/env python3
"""Build mutants/EXPECT.json from the last seedtest run (.cache/seedtest.json): mutant dir -> {property: [violation keys]}.
Only the first two keys per property are kept (the named instances the self-test must see again)."""
import json, os, re
V = os.path.dirname(os.path.dirname(os.path.abspath(__file__)))
res = json.load(open(os.path.join(V, '.cache', 'seedtest.json')))
out = {}
for name, fired in sorted(res.items()):
    e = {}
    for pid, keys in fired.items():
        ks = []
        for k in keys:
            k = k.replace('key:', '').strip()
            if 'check-error' in k or 'floor is' in k:
                # fails closed (anchor gone / table shape lost): expect the same rule to fail closed again
                k = k.split('|check-error', 1)[0] + '|check-error'
            # drop the rule prefix's volatile parts? keep the whole key: it has no line numbers
            ks.append(k)
        if ks:
            e[pid] = ks[:2]
    if e:
        out[name] = e
# expectations added by hand after a rule was strengthened (until the next full seedtest run confirms them)
mp = os.path.join(V, 'mutants', 'EXPECT.manual.json')
if os.path.exists(mp):
    for name, e in json.load(open(mp)).items():
        for pid, ks in e.items():
            out.setdefault(name, {})[pid] = ks          # hand-maintained entries win (rules changed after the run)
json.dump(out, open(os.path.join(V, 'mutants', 'EXPECT.json'), 'w'), indent=1, sort_keys=True)
print(len(out), 'changes with expectations')
