"""helper for ad-hoc exploration: facts of /repo's current tree"""
import importlib.machinery, importlib.util, os, sys
V = os.path.dirname(os.path.dirname(os.path.abspath(__file__)))
sys.path.insert(0, V)
loader = importlib.machinery.SourceFileLoader('checkmod', os.path.join(V, 'check'))
spec = importlib.util.spec_from_loader('checkmod', loader)
checkmod = importlib.util.module_from_spec(spec)
loader.exec_module(checkmod)
from rules import core
def load(repo='/repo'):
    p, _ = checkmod.ensure_facts(repo)
    return core.Facts(p)
