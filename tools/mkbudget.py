#!/usr/bin/env python3
"""Regenerate rules/root_budget.json: per census, per named root function and kind, the number of table-relevant sites on the
current /repo tree. Refuses to write unless the census rules (C14, C15, C16) are silent apart from listed known findings - the
budget is a derived view of the reviewed tables, not a review of its own."""
import json, os, sys
V = os.path.dirname(os.path.dirname(os.path.abspath(__file__)))
sys.path.insert(0, V)
sys.path.insert(0, os.path.join(V, 'tools'))
from repofacts import load
from rules import report, c14, c16, census
F = load()
out = {}
rep = report.Report('C14', 'quick', 0)
c14.run(F, rep, 'quick')
known, _ = report.load_known()
bad = [v for v in rep.violations if ('C14', v['key']) not in known]
rep16 = report.Report('C16', 'quick', 0)
c16.run(F, rep16, 'quick')
bad += [v for v in rep16.violations if ('C16', v['key']) not in known]
if bad:
    print('refusing: the tree is not clean under the reviewed tables:', [v['key'] for v in bad][:5])
    sys.exit(1)
viol_keys = [v['key'] for v in rep.violations + rep16.violations]       # known findings: never part of a budget
for name, groups in c14.LAST_GROUPS.items():
    d = {}
    for k, v in groups.items():
        if not isinstance(k, tuple):
            continue
        if any(('|%s|%s' % (k[0], k[1])) in vk or ('|%s|index:%s' % (k[0], k[1])) in vk for vk in viol_keys):
            continue
        rk = '%s|%s' % (census.root_key(k[0]), k[1])
        d[rk] = d.get(rk, 0) + len(v)
    out[name] = d
d = {}
for rid, groups in census.LAST_CAST_GROUPS.items():
    for k, v in groups.items():
        rk = '%s|%s' % (census.root_key(k[0]), k[1])
        d[rk] = max(d.get(rk, 0), 0) + (len(v) if rid == 'R16.6' else 0)
out['casts'] = {k: v for k, v in d.items() if v}
json.dump(out, open(os.path.join(V, 'rules', 'root_budget.json'), 'w'), indent=1, sort_keys=True)
print({k: len(v) for k, v in out.items()})
