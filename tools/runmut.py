#!/usr/bin/env python3
"""tools/runmut.py <mutant-dir> <Cxx> [<Cyy> ...]: apply one stored change to a scratch copy and run the given checks on it"""
import os, shutil, subprocess, sys, tempfile
V = os.path.dirname(os.path.dirname(os.path.abspath(__file__)))
d = os.path.abspath(sys.argv[1])
scratch = tempfile.mkdtemp(prefix='runmut.')
try:
    shutil.copytree('/repo/src', scratch + '/src')
    for f in ('Cargo.toml', 'Cargo.lock'):
        shutil.copy('/repo/' + f, scratch)
    r = subprocess.run(['git', 'apply', '--unsafe-paths', '--directory=' + scratch, os.path.join(d, 'patch.diff')], cwd=scratch, capture_output=True, text=True)
    if r.returncode != 0:
        print('patch failed', r.stderr)
        sys.exit(2)
    for pid in sys.argv[2:]:
        p = subprocess.run([os.path.join(V, 'check'), pid, '--repo', scratch, '--no-evidence'], capture_output=True, text=True)
        print(p.stdout[-1500:])
finally:
    shutil.rmtree(scratch, ignore_errors=True)
