#!/usr/bin/env python3
import json, sys, os, glob
sys.path.insert(0, '/opt/veriftools/pyvenv/lib/python3.11/site-packages')
for p in glob.glob('/opt/veriftools/pyvenv/lib/python3*/site-packages'):
    sys.path.insert(0, p)
import jsonschema
V = os.path.dirname(os.path.dirname(os.path.abspath(__file__)))
jsonschema.validate(json.load(open(V + '/MANIFEST.json')), json.load(open('/root/.vp/MANIFEST.schema.json')))
n = 0
for f in glob.glob(V + '/evidence/*.json'):
    jsonschema.validate(json.load(open(f)), json.load(open('/root/.vp/EVIDENCE.schema.json')))
    n += 1
print('MANIFEST valid;', n, 'evidence files valid')
