#!/usr/bin/env python3
"""Regenerate /verif/MANIFEST.json from the claims table below (kept next to the rules)."""
import json
import os
import sys

VERIF = os.path.dirname(os.path.dirname(os.path.abspath(__file__)))
sys.path.insert(0, VERIF)

TB = ('rustc nightly HIR/MIR + callee resolution; std/num crates beyond the crate boundary; the reviewed '
      'tables embedded in /verif/rules/*.py (one reason per entry)')

CLAIMS = {}   # pid -> dict(level, text, technique, design_ref)
NA = {}       # pid -> reason


def claim(pid, text, technique, level='other', ref=None):
    CLAIMS[pid] = dict(level=level, text=text, technique=technique, ref=ref or ('DESIGN.md section 3, ' + pid))


exec(open(os.path.join(VERIF, 'tools', 'claims.py')).read())

props = [json.loads(l)['id'] for l in open(os.path.join(VERIF, 'properties.jsonl'))]
checks = []
for pid in props:
    if pid in CLAIMS and os.path.exists(os.path.join(VERIF, 'rules', pid.lower() + '.py')):
        c = CLAIMS[pid]
        checks.append({
            'property_id': pid,
            'quick_cmd': './check %s --tier quick' % pid,
            'thorough_cmd': './check %s --tier thorough' % pid,
            'evidence_file': 'evidence/%s.json' % pid,
            'replay_cmd_template': 'cat {path}',
            'engine': 'nlint+rules',
            'level_claimed': {'category': c['level'], 'text': c['text'], 'design_ref': c['ref']},
            'level_note': TB,
            'technique': c['technique'],
        })
na = []
for pid in props:
    if not any(c['property_id'] == pid for c in checks):
        na.append({'property_id': pid, 'reason': NA.get(pid, 'static rules for this property are not built yet in this round; not claimed')})
m = {
    'version': 1,
    'setup_cmd': 'cd nlint && CARGO_NET_OFFLINE=true cargo build --release --offline',
    'hooks': {
        'guard': 'betaveros_noulith_verif',
        'enable': 'none needed: static analysis reads rustc HIR/MIR of the unmodified sources; no instrumentation exists',
        'baseline_off_cmd': 'cd /repo && cargo nextest run --workspace --no-fail-fast --offline',
        'source_commits': [],
        'add_only': True,
    },
    'engines': [
        {'name': 'nlint', 'path': 'nlint/', 'serves_properties': [c['property_id'] for c in checks],
         'kind_free_text': 'rustc_private driver (nightly) dumping resolved HIR/MIR facts of /repo as JSON'},
        {'name': 'rules', 'path': 'rules/', 'serves_properties': [c['property_id'] for c in checks],
         'kind_free_text': 'Python static rules: CFG dominance, provenance, finite decision tables, type reachability, census with reviewed tables'},
    ],
    'checks': checks,
    'not_applicable': na,
    'notes': 'Static analysis only: no check runs Noulith code or the test-suite. known_findings.txt lists recorded defects and fixed: entries.',
}
with open(os.path.join(VERIF, 'MANIFEST.json'), 'w') as f:
    json.dump(m, f, indent=1)
print('claimed:', [c['property_id'] for c in checks])
print('not_applicable:', [x['property_id'] for x in na])
