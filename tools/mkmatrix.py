#!/usr/bin/env python3
"""Print the change/check matrix of DESIGN.md 8.5 from the last seedtest run (.cache/seedtest.json), the descriptions in
seeded/*/meta.json ("what") and mutants/*/what.txt, and the hand-maintained expectations (mutants/EXPECT.manual.json: rules
strengthened after that run)."""
import json, os, re
V = os.path.dirname(os.path.dirname(os.path.abspath(__file__)))
res = json.load(open(os.path.join(V, '.cache', 'seedtest.json')))
manual = {}
mp = os.path.join(V, 'mutants', 'EXPECT.manual.json')
if os.path.exists(mp):
    manual = json.load(open(mp))
import sys
lines = ['| change | what it does | caught by (first instance) |', '|---|---|---|']
def key(n):
    d, m = n.split('/')
    return (0 if d == 'mutants' else 1, m)
for name in sorted(res, key=key):
    fired = dict(res[name])
    for pid, ks in manual.get(name, {}).items():
        fired.setdefault(pid, ['key: ' + k for k in ks])
    d = os.path.join(V, name)
    what = ''
    if os.path.exists(d + '/meta.json'):
        what = json.load(open(d + '/meta.json')).get('what', '')
    elif os.path.exists(d + '/what.txt'):
        what = 'reverses: ' + open(d + '/what.txt').read().strip().splitlines()[0][:110]
    cells = []
    for pid in sorted(fired):
        k = fired[pid][0].replace('key:', '').strip()
        k = re.sub(r'\|', ' / ', k)[:100]
        cells.append('%s `%s`' % (pid, k))
    lines.append('| %s | %s | %s |' % (name.split('/')[1], what.replace('|', '/'), '; '.join(cells) if cells else '**missed**'))

if '--write' in sys.argv:
    dp = os.path.join(V, 'DESIGN.md')
    d = open(dp).read()
    a = d.index('<!-- MATRIX BEGIN')
    a = d.index('\n', a) + 1
    b = d.index('<!-- MATRIX END -->')
    open(dp, 'w').write(d[:a] + '\n'.join(lines) + '\n' + d[b:])
    print('DESIGN.md matrix rewritten: %d rows' % (len(lines) - 2))
else:
    print('\n'.join(lines))
