#!/usr/bin/env python3
"""debug helper: dump calls / arms of a function from the cached facts"""
import sys, os, glob
sys.path.insert(0, os.path.dirname(os.path.abspath(__file__)))
sys.path.insert(0, os.path.dirname(os.path.dirname(os.path.abspath(__file__))))
from rules import core
from repofacts import load
F = load()
pat = sys.argv[1]
mode = sys.argv[2] if len(sys.argv) > 2 else 'calls'
for p in F.fns_matching(pat):
    b = F.body(p)
    print('==', p, 'blocks', b.n, F.fns[p].get('inputs'), '->', F.fns[p].get('output'))
    if mode == 'calls':
        for c in b.calls:
            print('   bb%d %s  [%s]  args=%s' % (c.bb, c.target, c.da if c.da != c.target else '', [sorted(b.root_names(a)) for a in c.args]))
    elif mode == 'arms':
        for m in F.matches.get(p, []):
            if m['kind'].startswith('TryDesugar') or m['kind'].startswith('ForLoop'): continue
            print('  match', m['kind'], m['scrut_ty'])
            for i, a in enumerate(m['arms']):
                reg = core.arm_region(F, b, m, i)
                cs = [c.target.split('::')[-2] + '::' + c.target.split('::')[-1] if '::' in c.target else c.target for c in b.calls_in(reg)]
                print('     ', core.pat_str(a['pat']), 'G' if a['guard'] else '', '=>', cs[:12])
    elif mode == 'mir':
        for i, blk in enumerate(b.blocks):
            if blk['cleanup']: continue
            print('  bb%d' % i)
            for s in blk['s']:
                if s[0] == 'a': print('      ', s[1], '=', s[2])
            print('      T', blk['t'][:5] if blk['t'][0] != 'call' else ('call', blk['t'][1].get('r') or blk['t'][1].get('d'), blk['t'][2], blk['t'][3], blk['t'][4]))
