#!/usr/bin/env python3
"""Run every claimed check against every seeded change (in a scratch copy of /repo's sources).
usage: tools/seedtest.py [dir-with-<id>/<mutant>/patch.diff ...]   (default /verif/seeded)
Prints a matrix: mutant -> checks that fire (exit 1 with a VIOLATION line)."""
import json, os, shutil, subprocess, sys, tempfile
from concurrent.futures import ThreadPoolExecutor
V = os.path.dirname(os.path.dirname(os.path.abspath(__file__)))
roots = sys.argv[1:] or [os.path.join(V, 'seeded')]
claimed = [c['property_id'] for c in json.load(open(os.path.join(V, 'MANIFEST.json')))['checks']]
muts = []
for r in roots:
    for d, _ds, fs in sorted(os.walk(r)):
        if 'patch.diff' in fs:
            muts.append(d)

def one(d):
    scratch = tempfile.mkdtemp(prefix='seedtest.')
    try:
        shutil.copytree('/repo/src', scratch + '/src')
        for f in ('Cargo.toml', 'Cargo.lock'):
            shutil.copy('/repo/' + f, scratch)
        r = subprocess.run(['git', 'apply', '--unsafe-paths', '--directory=' + scratch, os.path.join(d, 'patch.diff')], cwd=scratch, capture_output=True, text=True)
        if r.returncode != 0:
            r = subprocess.run('patch -p1 < %s' % os.path.join(d, 'patch.diff'), shell=True, cwd=scratch, capture_output=True, text=True)
            if r.returncode != 0:
                return d, None, 'patch failed: ' + r.stderr[-200:] + r.stdout[-200:]
        env = dict(os.environ, VERIF_EVIDENCE_DIR=scratch + '/ev')
        # facts once
        fired = {}
        first = True
        for pid in claimed:
            p = subprocess.run([os.path.join(V, 'check'), pid, '--repo', scratch, '--no-evidence'], capture_output=True, text=True, env=env)
            if p.returncode != 0:
                keys = [l.strip() for l in p.stdout.splitlines() if l.strip().startswith('key:')]
                fired[pid] = keys[:4] or [p.stdout[-300:]]
        return d, fired, ''
    finally:
        shutil.rmtree(scratch, ignore_errors=True)

with ThreadPoolExecutor(max_workers=5) as ex:
    res = list(ex.map(one, muts))
out = {}
for d, fired, err in res:
    name = os.path.relpath(d, os.path.dirname(os.path.dirname(d)))
    if fired is None:
        print('%-12s ERROR %s' % (name, err))
        continue
    print('%-12s %s' % (name, 'caught by ' + ', '.join(sorted(fired)) if fired else 'MISSED'))
    for pid, keys in fired.items():
        for k in keys:
            print('             %s %s' % (pid, k[:200]))
    out[name] = fired
json.dump(out, open(os.environ.get('SEEDTEST_OUT') or os.path.join(V, '.cache', 'seedtest.json'), 'w'), indent=1)
