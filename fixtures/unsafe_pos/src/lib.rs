// Positive control for rule R1.1 (no unsafe in the crate): one of each construct. The rule must report
// exactly these four user-written items on every run, otherwise the extractor is blind.
pub unsafe fn raw_read(p: *const u8) -> u8 {
    *p
}

pub fn block(p: *const u8) -> u8 {
    unsafe { raw_read(p) }
}

pub struct Wrapper(*mut u8);
unsafe impl Send for Wrapper {}

extern "C" {
    pub fn abs(x: i32) -> i32;
}

#[derive(Clone, Debug)]
pub struct Plain(pub u8);

pub fn fmt_only(x: &Plain) -> String {
    format!("{:?} {}", x, x.0)
}

// Positive control for C08/R8.7 (no pointer identity in comparisons): exactly one Rc::ptr_eq.
pub fn same_storage(a: &std::rc::Rc<Vec<u8>>, b: &std::rc::Rc<Vec<u8>>) -> bool {
    std::rc::Rc::ptr_eq(a, b)
}
